/*
 * vp.h - shared definitions for all harnesses.
 *
 * Two build modes:
 *   - CBMC (default): nondet_*() are body-less => symbolic. VP_REACH() is an
 *     assertion that MUST fail (reachability witness, vacuity guard).
 *   - -DVP_REPLAY (native, gcc + ASan/UBSan): nondet_*() pop the values of a
 *     recorded counterexample in execution order (stubs/replay_nondet.c);
 *     assumptions that do not hold end the replay with exit code 77,
 *     failed assertions abort().
 *
 * Convention (needed for replay): every nondet value is produced through one
 * of the ND_*() macros below.  They assign the value to a local variable
 * called vpi_v, so that the counterexample trace lists the inputs in
 * execution order as assignments to "vpi_v".
 */
#ifndef VP_H
#define VP_H

#include <stddef.h>
#include <stdint.h>
#include <stdbool.h>

unsigned char nondet_uchar(void);
unsigned short nondet_ushort(void);
unsigned int nondet_uint(void);
int nondet_int(void);
unsigned long nondet_ulong(void);
long nondet_long(void);
_Bool nondet_bool(void);

#define ND_U8()   ({ unsigned char  vpi_v = nondet_uchar();  vpi_v; })
#define ND_U16()  ({ unsigned short vpi_v = nondet_ushort(); vpi_v; })
#define ND_U32()  ({ unsigned int   vpi_v = nondet_uint();   vpi_v; })
#define ND_I32()  ({ int            vpi_v = nondet_int();    vpi_v; })
#define ND_U64()  ({ unsigned long  vpi_v = nondet_ulong();  vpi_v; })
#define ND_I64()  ({ long           vpi_v = nondet_long();   vpi_v; })
#define ND_BOOL() ({ _Bool          vpi_v = nondet_bool();   vpi_v; })
#define ND_SZ()   ((size_t)ND_U64())

#ifdef VP_REPLAY
#include <stdio.h>
#include <stdlib.h>
void vp_replay_assume_fail(const char *what, const char *file, int line);
void vp_replay_assert_fail(const char *what, const char *file, int line);
#define VP_ASSUME(c) do { if (!(c)) vp_replay_assume_fail(#c, __FILE__, __LINE__); } while (0)
#define VP_ASSERT(c, msg) do { if (!(c)) vp_replay_assert_fail(msg, __FILE__, __LINE__); } while (0)
#define VP_REACH(label) do { } while (0)
#define VP_W_OK(p, n) 1
#define VP_R_OK(p, n) 1
#define VP_CBMC 0
#else
#define VP_ASSUME(c) __CPROVER_assume(c)
#define VP_ASSERT(c, msg) __CPROVER_assert((c), "VP_PROP:" msg)
/* must come back FAILED: proves this point is reachable under the assumptions */
#define VP_REACH(label) __CPROVER_assert(0, "VP_REACH:" label)
#define VP_W_OK(p, n) __CPROVER_w_ok((p), (n))
#define VP_R_OK(p, n) __CPROVER_r_ok((p), (n))
#define VP_CBMC 1
#endif

/* fill a buffer with symbolic bytes, constant trip count (replayable) */
#define VP_FILL(buf, n) do { for (size_t vp_i_ = 0; vp_i_ < (size_t)(n); ++vp_i_) \
	((unsigned char *)(buf))[vp_i_] = ND_U8(); } while (0)

#endif /* VP_H */
