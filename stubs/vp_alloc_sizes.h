/*
 * Pre-include for translation units whose allocation sizes come from the
 * image.  CBMC cannot handle heap objects of symbolic size in reach (array
 * theory post-processing does not terminate), so an allocation succeeds only
 * if its size is one of the constants in VP_ALLOC_SIZES (each branch then
 * allocates a constant-size object) and fails with NULL otherwise.  Failing is
 * within malloc's contract; the listed sizes are the stated shape bound.
 */
#ifndef VP_ALLOC_SIZES_H
#define VP_ALLOC_SIZES_H
#include <stdlib.h>
#ifndef VP_ALLOC_SIZES
#define VP_ALLOC_SIZES 64
#endif
static const size_t vp_alloc_sizes[] = { VP_ALLOC_SIZES };
#define VP_ALLOC_NSIZES (sizeof(vp_alloc_sizes) / sizeof(vp_alloc_sizes[0]))
static unsigned vp_alloc_refused;
static inline void *vp_calloc(size_t n, size_t s)
{
	size_t total;
	if (__builtin_mul_overflow(n, s, &total))
		return NULL;
	for (size_t k = 0; k < VP_ALLOC_NSIZES; ++k) {
		if (total == vp_alloc_sizes[k])
			return calloc(1, vp_alloc_sizes[k]);
	}
	vp_alloc_refused++;
	return NULL;
}
static inline void *vp_malloc(size_t s)
{
	for (size_t k = 0; k < VP_ALLOC_NSIZES; ++k) {
		if (s == vp_alloc_sizes[k])
			return malloc(vp_alloc_sizes[k]);
	}
	vp_alloc_refused++;
	return NULL;
}
static inline void *vp_realloc(void *p, size_t s)
{
	for (size_t k = 0; k < VP_ALLOC_NSIZES; ++k) {
		if (s == vp_alloc_sizes[k])
			return realloc(p, vp_alloc_sizes[k]);
	}
	vp_alloc_refused++;
	return NULL;
}
#define calloc vp_calloc
#define malloc vp_malloc
#define realloc vp_realloc
#endif
