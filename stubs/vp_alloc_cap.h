/*
 * Pre-include for translation units whose allocation sizes come from the
 * image: allocations above VP_ALLOC_CAP bytes fail with NULL (malloc is
 * allowed to fail; absurd sizes do fail in practice).  Keeps heap objects
 * small enough for the solver; smaller allocations never fail unless the
 * obligation runs with --malloc-may-fail.
 */
#ifndef VP_ALLOC_CAP_H
#define VP_ALLOC_CAP_H
#include <stdlib.h>
#ifndef VP_ALLOC_CAP
#define VP_ALLOC_CAP 256
#endif
static inline void *vp_calloc(size_t n, size_t s)
{
	if (s != 0 && n > VP_ALLOC_CAP / s)
		return NULL;
	return calloc(n, s);
}
static inline void *vp_malloc(size_t s)
{
	if (s > VP_ALLOC_CAP)
		return NULL;
	return malloc(s);
}
static inline void *vp_realloc(void *p, size_t s)
{
	if (s > VP_ALLOC_CAP)
		return NULL;
	return realloc(p, s);
}
#define calloc vp_calloc
#define malloc vp_malloc
#define realloc vp_realloc
#endif
