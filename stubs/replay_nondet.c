/*
 * Native replay support: nondet_*() return the values recorded from a CBMC
 * counterexample (file named by env VP_VALUES, one decimal integer per line,
 * in execution order).  When the list is exhausted 0 is returned.
 */
#include <stdio.h>
#include <stdlib.h>
#include <string.h>

static long long *vals;
static size_t nvals, pos;
static int loaded;

static void load(void)
{
	const char *path = getenv("VP_VALUES");
	char line[128];
	size_t cap = 0;
	FILE *fp;

	loaded = 1;
	if (path == NULL)
		return;
	fp = fopen(path, "r");
	if (fp == NULL)
		return;
	while (fgets(line, sizeof(line), fp) != NULL) {
		if (nvals == cap) {
			cap = cap ? cap * 2 : 64;
			vals = realloc(vals, cap * sizeof(*vals));
		}
		vals[nvals++] = (line[0] == '-') ? strtoll(line, NULL, 0) : (long long)strtoull(line, NULL, 0);	/* 64 bit unsigned values do not fit strtoll */
	}
	fclose(fp);
}

static long long next(void)
{
	if (!loaded)
		load();
	if (pos < nvals)
		return vals[pos++];
	return 0;
}

unsigned char nondet_uchar(void) { return (unsigned char)next(); }
unsigned short nondet_ushort(void) { return (unsigned short)next(); }
unsigned int nondet_uint(void) { return (unsigned int)next(); }
int nondet_int(void) { return (int)next(); }
unsigned long nondet_ulong(void) { return (unsigned long)next(); }
long nondet_long(void) { return (long)next(); }
_Bool nondet_bool(void) { return next() != 0; }

void vp_replay_assume_fail(const char *what, const char *file, int line)
{
	fprintf(stderr, "VP_REPLAY: assumption does not hold: %s (%s:%d)\n",
		what, file, line);
	exit(77);
}

void vp_replay_assert_fail(const char *what, const char *file, int line)
{
	fprintf(stderr, "VP_REPLAY: ASSERTION VIOLATED: %s (%s:%d)\n",
		what, file, line);
	fflush(stderr);
	abort();
}

void harness(void);

int main(void)
{
	harness();
	fprintf(stderr, "VP_REPLAY: harness returned normally\n");
	return 0;
}
