/*
 * <ctype.h> for CBMC: glibc implements isspace() & co. through the
 * __ctype_b_loc() table, which has no body for the model checker.  All
 * obligations compile with -D__NO_CTYPE (plain function calls); the "C"
 * locale definitions are given here.
 */
int isspace(int c) { return c == ' ' || c == '\t' || c == '\n' || c == '\v' || c == '\f' || c == '\r'; }
int isdigit(int c) { return c >= '0' && c <= '9'; }
int isupper(int c) { return c >= 'A' && c <= 'Z'; }
int islower(int c) { return c >= 'a' && c <= 'z'; }
int isalpha(int c) { return isupper(c) || islower(c); }
int isalnum(int c) { return isalpha(c) || isdigit(c); }
int isxdigit(int c) { return isdigit(c) || (c >= 'a' && c <= 'f') || (c >= 'A' && c <= 'F'); }
int isprint(int c) { return c >= 32 && c < 127; }
int tolower(int c) { return isupper(c) ? c + 32 : c; }
int toupper(int c) { return islower(c) ? c - 32 : c; }
