/* glibc's makedev()/major()/minor() expand to gnu_dev_* functions that have no
   body for the model checker; definitions as in sys/sysmacros.h */
unsigned long long gnu_dev_makedev(unsigned int ma, unsigned int mi)
{
	return (((unsigned long long)(ma & 0x00000fffu)) << 8) | (((unsigned long long)(ma & 0xfffff000u)) << 32) |
	       (((unsigned long long)(mi & 0x000000ffu)) << 0) | (((unsigned long long)(mi & 0xffffff00u)) << 12);
}
unsigned int gnu_dev_major(unsigned long long d) { return (unsigned int)(((d >> 8) & 0x00000fffu) | ((d >> 32) & 0xfffff000u)); }
unsigned int gnu_dev_minor(unsigned long long d) { return (unsigned int)(((d >> 0) & 0x000000ffu) | ((d >> 12) & 0xffffff00u)); }
