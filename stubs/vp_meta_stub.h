/*
 * Contract stub of the metadata reader for the layers above it
 * (read_inode.c, readdir.c, dir_reader.c, xattr_reader.c, ...).
 *
 * sqfs_meta_reader_seek(): nondeterministic error, or success.
 * sqfs_meta_reader_read(m, data, size): asserts that [data, data+size) is
 *   writable, then either returns a negative error (any call may fail: the
 *   image may end anywhere) or fills exactly `size` unconstrained bytes.
 *   Reads larger than VP_META_MAXRD fail (stated bound) and only the
 *   first VP_META_MAXCALLS read attempts can succeed (the attempt counter is
 *   a constant on every path, which keeps the bound visible to symex) (bounds loops that are driven by on-disk
 *   counts).
 * Every byte sequence any real image can deliver is a behaviour of this stub.
 */
#ifndef VP_META_STUB_H
#define VP_META_STUB_H
#include "vp.h"
#include "sqfs/meta_reader.h"
#include "sqfs/inode.h"
#include "sqfs/error.h"

#ifndef VP_META_MAXRD
#define VP_META_MAXRD 40
#endif
#ifndef VP_META_MAXCALLS
#define VP_META_MAXCALLS 6
#endif

static unsigned vp_meta_reads, vp_meta_seeks, vp_meta_calls;
static sqfs_u64 vp_meta_pos_block;
static size_t vp_meta_pos_off;
struct sqfs_meta_reader_t { sqfs_object_t base; int dummy; };
static struct sqfs_meta_reader_t vp_meta_obj;

int sqfs_meta_reader_seek(sqfs_meta_reader_t *m, sqfs_u64 block_start, size_t offset)
{
	(void)m;
	vp_meta_seeks++;
	if (ND_BOOL())
		return SQFS_ERROR_OUT_OF_BOUNDS;
	vp_meta_pos_block = block_start;
	vp_meta_pos_off = offset;
	return 0;
}

int sqfs_meta_reader_read(sqfs_meta_reader_t *m, void *data, size_t size)
{
	size_t i;
	(void)m;
	VP_ASSERT(VP_W_OK(data, size), "metadata read: destination buffer holds the requested number of bytes");
	vp_meta_calls++;
#if defined(VP_META_FORCE_U16) && VP_CBMC
	/* shape selection, part 1: the inode type word is stored (typed constant)
	   BEFORE the failure decision of the first read, so that the value is the
	   same constant on both branches and survives the merge at the function
	   end (symex does not use path conditions to simplify merged values).
	   Leaving data in the destination of a failed read is within the contract:
	   the real reader copies partial data before it fails. */
	if (vp_meta_calls == 1 && size == sizeof(sqfs_inode_t))
		((sqfs_inode_t *)data)->type = (VP_META_FORCE_U16);
#endif
	if (size > VP_META_MAXRD || vp_meta_calls > VP_META_MAXCALLS || ND_BOOL())
		return SQFS_ERROR_OUT_OF_BOUNDS;
	vp_meta_reads++;
#if VP_CBMC
	/* unconstrained content; a byte-wise loop of nondet writes into typed
	   structs costs minutes, havoc_slice is the engine primitive for this */
	(void)i;
#ifdef VP_META_FORCE_U16
	if (vp_meta_calls == 1 && size == sizeof(sqfs_inode_t)) {
		/* the base inode, field by field (typed nondet values): a typed store
		   into a havoc'ed slice is not constant-propagated by symex */
		sqfs_inode_t *b = data;
		b->type = (VP_META_FORCE_U16); b->mode = ND_U16(); b->uid_idx = ND_U16(); b->gid_idx = ND_U16();
		b->mod_time = ND_U32(); b->inode_number = ND_U32();
	} else
#endif
#ifdef VP_META_NOFILL_ABOVE
	/* shape restriction: reads longer than this (names, never interpreted by
	   the function under test) are only CHECKED for a large enough destination;
	   the destination keeps its previous content */
	if (size > (VP_META_NOFILL_ABOVE)) { } else
#endif
	__CPROVER_havoc_slice(data, size);
#else
	for (i = 0; i < VP_META_MAXRD; ++i) {
		if (i < size)
			((unsigned char *)data)[i] = ND_U8();
	}
#endif
#ifdef VP_META_EXTDIR_ENTSIZE_BASE
	/* shape restriction for the extended-directory index obligation: the name
	   length word of an index entry (3rd, 5th ... read, u32 at offset 8) is
	   confined to a window of 8 values around the growth boundary */
	if (size == 12 && vp_meta_calls >= 3)
		((unsigned int *)data)[2] = (VP_META_EXTDIR_ENTSIZE_BASE) + (ND_U32() & 7);
#endif
#ifdef VP_META_FORCE_U16
	/* shape selection: the first 16 bit word of the first read (the inode
	   type) is fixed by the obligation through a TYPED store so that symbolic
	   execution prunes the other branches; everything else stays symbolic */
	if (vp_meta_calls == 1 && size >= 2)
		*(unsigned short *)data = (VP_META_FORCE_U16);
#endif
	vp_meta_pos_off += size;
	return 0;
}

void sqfs_meta_reader_get_position(const sqfs_meta_reader_t *m, sqfs_u64 *block_start, size_t *offset)
{
	(void)m;
	*block_start = vp_meta_pos_block;
	*offset = vp_meta_pos_off;
}
#endif
