/*
 * Contract stub of the metadata reader for the layers above it
 * (read_inode.c, readdir.c, dir_reader.c, xattr_reader.c, ...).
 *
 * sqfs_meta_reader_seek(): nondeterministic error, or success.
 * sqfs_meta_reader_read(m, data, size): asserts that [data, data+size) is
 *   writable, then either returns a negative error (any call may fail: the
 *   image may end anywhere) or fills exactly `size` unconstrained bytes.
 *   Reads larger than VP_META_MAXRD fail (stated bound) and at most
 *   VP_META_MAXCALLS reads succeed (bounds loops that are driven by on-disk
 *   counts).
 * Every byte sequence any real image can deliver is a behaviour of this stub.
 */
#ifndef VP_META_STUB_H
#define VP_META_STUB_H
#include "vp.h"
#include "sqfs/meta_reader.h"
#include "sqfs/error.h"

#ifndef VP_META_MAXRD
#define VP_META_MAXRD 40
#endif
#ifndef VP_META_MAXCALLS
#define VP_META_MAXCALLS 6
#endif

static unsigned vp_meta_reads, vp_meta_seeks;
static sqfs_u64 vp_meta_pos_block;
static size_t vp_meta_pos_off;
struct sqfs_meta_reader_t { sqfs_object_t base; int dummy; };
static struct sqfs_meta_reader_t vp_meta_obj;

int sqfs_meta_reader_seek(sqfs_meta_reader_t *m, sqfs_u64 block_start, size_t offset)
{
	(void)m;
	vp_meta_seeks++;
	if (ND_BOOL())
		return SQFS_ERROR_OUT_OF_BOUNDS;
	vp_meta_pos_block = block_start;
	vp_meta_pos_off = offset;
	return 0;
}

int sqfs_meta_reader_read(sqfs_meta_reader_t *m, void *data, size_t size)
{
	size_t i;
	(void)m;
	VP_ASSERT(VP_W_OK(data, size), "metadata read: destination buffer holds the requested number of bytes");
	if (size > VP_META_MAXRD || vp_meta_reads >= VP_META_MAXCALLS || ND_BOOL())
		return SQFS_ERROR_OUT_OF_BOUNDS;
	vp_meta_reads++;
#if VP_CBMC
	/* unconstrained content; a byte-wise loop of nondet writes into typed
	   structs costs minutes, havoc_slice is the engine primitive for this */
	(void)i;
	__CPROVER_havoc_slice(data, size);
#else
	for (i = 0; i < VP_META_MAXRD; ++i) {
		if (i < size)
			((unsigned char *)data)[i] = ND_U8();
	}
#endif
#ifdef VP_META_EXTDIR_ENTSIZE_BASE
	/* shape restriction for the extended-directory index obligation: the name
	   length word of an index entry (3rd, 5th ... read, u32 at offset 8) is
	   confined to a window of 8 values around the growth boundary */
	if (size == 12 && vp_meta_reads >= 3)
		((unsigned int *)data)[2] = (VP_META_EXTDIR_ENTSIZE_BASE) + (ND_U32() & 7);
#endif
#ifdef VP_META_FORCE_U16
	/* shape selection: the first 16 bit word of the first read (the inode
	   type) is fixed by the obligation through a TYPED store so that symbolic
	   execution prunes the other branches; everything else stays symbolic */
	if (vp_meta_reads == 1 && size >= 2)
		*(unsigned short *)data = (VP_META_FORCE_U16);
#endif
	vp_meta_pos_off += size;
	return 0;
}

void sqfs_meta_reader_get_position(const sqfs_meta_reader_t *m, sqfs_u64 *block_start, size_t *offset)
{
	(void)m;
	*block_start = vp_meta_pos_block;
	*offset = vp_meta_pos_off;
}
#endif
