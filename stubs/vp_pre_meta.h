/*
 * Pre-include: scale SQFS_META_BLOCK_SIZE (8192) down so that the metadata
 * buffers embedded in reader/writer structs stay tractable.  The code uses the
 * macro everywhere except the 0x7FFF/0x8000 header masks, which stay valid
 * for any size <= 32767.
 */
#include "sqfs/block.h"
#ifdef VP_META
#undef SQFS_META_BLOCK_SIZE
#define SQFS_META_BLOCK_SIZE VP_META
#endif
