/*
 * Models of read/write/pread/pwrite for the retry-loop obligations (C12):
 * any call may transfer any count in 1..n ("short transfer"), fail with
 * EINTR (at most VP_EINTR_MAX times in a row per harness: the scheduler
 * eventually lets the call through), fail with EIO (recorded in vp_sys_eio),
 * or hit end-of-file / a full device (return 0).
 *   source for read():  vp_src[VP_SRC], vp_src_len, cursor vp_src_pos
 *   sink for write():   vp_out[VP_OUT], cursor vp_out_pos
 *   pread/pwrite:       vp_disk[VP_DISK], vp_disk_size
 */
#ifndef VP_SYSCALLS_H
#define VP_SYSCALLS_H
#include "vp.h"
#include <errno.h>
#include <sys/types.h>
#include <unistd.h>

#ifndef VP_SRC
#define VP_SRC 8
#endif
#ifndef VP_OUT
#define VP_OUT 8
#endif
#ifndef VP_DISK
#define VP_DISK 8
#endif
#ifndef VP_EINTR_MAX
#define VP_EINTR_MAX 2
#endif
#ifndef VP_XFER_MAX
#define VP_XFER_MAX 8
#endif

static unsigned char vp_src[VP_SRC];
static size_t vp_src_len, vp_src_pos;
static unsigned char vp_out[VP_OUT];
static size_t vp_out_pos;
static unsigned char vp_disk[VP_DISK];
static size_t vp_disk_size;
static unsigned vp_eintr_left = VP_EINTR_MAX;
static int vp_sys_eio, vp_sys_may_eio = 1;
static unsigned vp_sys_calls, vp_sys_short;

static int vp_sys_fault(void)
{
	vp_sys_calls++;
	if (vp_eintr_left > 0 && ND_BOOL()) {
		vp_eintr_left--;
		errno = EINTR;
		return 1;
	}
	if (vp_sys_may_eio && ND_BOOL()) {
		vp_sys_eio = 1;
		errno = EIO;
		return 1;
	}
	return 0;
}

static size_t vp_sys_count(size_t n, size_t avail)
{
	size_t k = ND_SZ();
	size_t max = n < avail ? n : avail;
	VP_ASSUME(k >= 1 && k <= max);
	if (k < n)
		vp_sys_short++;
	return k;
}

ssize_t read(int fd, void *buf, size_t n)
{
	size_t k, i;
	(void)fd;
	if (vp_sys_fault())
		return -1;
	if (vp_src_pos >= vp_src_len || n == 0)
		return 0;
	k = vp_sys_count(n, vp_src_len - vp_src_pos);
	for (i = 0; i < VP_XFER_MAX; ++i)
		if (i < k)
			((unsigned char *)buf)[i] = vp_src[vp_src_pos + i];
	vp_src_pos += k;
	return (ssize_t)k;
}

ssize_t write(int fd, const void *buf, size_t n)
{
	size_t k, i;
	(void)fd;
	if (vp_sys_fault())
		return -1;
	if (vp_out_pos >= VP_OUT || n == 0)
		return 0;
	k = vp_sys_count(n, VP_OUT - vp_out_pos);
	for (i = 0; i < VP_XFER_MAX; ++i)
		if (i < k)
			vp_out[vp_out_pos + i] = ((const unsigned char *)buf)[i];
	vp_out_pos += k;
	return (ssize_t)k;
}

ssize_t pread(int fd, void *buf, size_t n, off_t off)
{
	size_t k, i;
	(void)fd;
	if (vp_sys_fault())
		return -1;
	if (off < 0 || (size_t)off >= vp_disk_size || n == 0)
		return 0;
	k = vp_sys_count(n, vp_disk_size - (size_t)off);
	for (i = 0; i < VP_XFER_MAX; ++i)
		if (i < k)
			((unsigned char *)buf)[i] = vp_disk[(size_t)off + i];
	return (ssize_t)k;
}

ssize_t pwrite(int fd, const void *buf, size_t n, off_t off)
{
	size_t k, i;
	(void)fd;
	if (vp_sys_fault())
		return -1;
	if (off < 0 || (size_t)off >= VP_DISK || n == 0)
		return 0;
	k = vp_sys_count(n, VP_DISK - (size_t)off);
	for (i = 0; i < VP_XFER_MAX; ++i)
		if (i < k)
			vp_disk[(size_t)off + i] = ((const unsigned char *)buf)[i];
	if ((size_t)off + k > vp_disk_size)
		vp_disk_size = (size_t)off + k;
	return (ssize_t)k;
}
#endif
