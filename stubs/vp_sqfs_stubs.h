/*
 * Environment models shared by the libsquashfs harnesses (header-only so
 * that every harness TU owns its own copy):
 *
 *  - memfile  : sqfs_file_t over the global byte array vp_img[VP_IMG],
 *               size vp_img_size; reading past the end copies the available
 *               prefix and fails with SQFS_ERROR_OUT_OF_BOUNDS (this is what
 *               the pread loop of lib/sqfs/src/io/file.c does); optional
 *               nondeterministic I/O errors (vp_io_may_fail);
 *               writes are recorded (vp_wlog_*) for ordering properties.
 *  - stubcmp  : sqfs_compressor_t whose do_block is an arbitrary but
 *               DETERMINISTIC function: the result length and the fill byte
 *               depend only on (first input byte & 3, input size & 3) through
 *               symbolic tables chosen once per run, contract: ret < 0, or
 *               0 <= ret <= outsize.
 */
#ifndef VP_SQFS_STUBS_H
#define VP_SQFS_STUBS_H

#include "vp.h"
#include "sqfs/predef.h"
#include "sqfs/io.h"
#include "sqfs/error.h"
#include "sqfs/compressor.h"
#include <string.h>

#ifndef VP_IMG
#define VP_IMG 32
#endif
#ifndef VP_MAXIO
#define VP_MAXIO VP_IMG
#endif

static unsigned char vp_img[VP_IMG];
static sqfs_u64 vp_img_size;
static int vp_io_may_fail;
static int vp_io_failed;	/* set when the stub injected an I/O error */

#ifndef VP_WLOG
#define VP_WLOG 8
#endif
static sqfs_u64 vp_wlog_off[VP_WLOG];
static size_t vp_wlog_len[VP_WLOG];
static sqfs_u64 vp_wlog_size_before[VP_WLOG];
static unsigned vp_wlog_n;
static unsigned vp_trunc_n;
static sqfs_u64 vp_trunc_last;

static int vp_file_read_at(sqfs_file_t *f, sqfs_u64 off, void *buf, size_t size)
{
	size_t avail, i;
	(void)f;
	if (vp_io_may_fail && ND_BOOL()) {
		vp_io_failed = 1;
		return SQFS_ERROR_IO;
	}
	avail = off < vp_img_size ? (size_t)(vp_img_size - off) : 0;
	for (i = 0; i < VP_MAXIO; ++i) {
		if (i < size && i < avail)
			((unsigned char *)buf)[i] = vp_img[off + i];
	}
	if (size > avail)
		return SQFS_ERROR_OUT_OF_BOUNDS;
	VP_ASSERT(size <= VP_MAXIO, "stub bound: read_at size within VP_MAXIO");
	return 0;
}

static int vp_file_write_at(sqfs_file_t *f, sqfs_u64 off, const void *buf, size_t size)
{
	size_t i;
	(void)f;
	if (vp_io_may_fail && ND_BOOL()) {
		vp_io_failed = 1;
		return SQFS_ERROR_IO;
	}
	if (vp_wlog_n < VP_WLOG) {
		vp_wlog_off[vp_wlog_n] = off;
		vp_wlog_len[vp_wlog_n] = size;
		vp_wlog_size_before[vp_wlog_n] = vp_img_size;
	}
	vp_wlog_n++;
	VP_ASSERT(size <= VP_MAXIO, "stub bound: write_at size within VP_MAXIO");
	VP_ASSERT(off <= VP_IMG && size <= VP_IMG - off, "stub bound: write stays inside the modelled file capacity");
	for (i = 0; i < VP_MAXIO; ++i) {
		if (i < size)
			vp_img[off + i] = ((const unsigned char *)buf)[i];
	}
	if (off + size > vp_img_size)
		vp_img_size = off + size;
	return 0;
}

static sqfs_u64 vp_file_get_size(const sqfs_file_t *f)
{
	(void)f;
	return vp_img_size;
}

static int vp_file_truncate(sqfs_file_t *f, sqfs_u64 size)
{
	size_t i;
	(void)f;
	if (vp_io_may_fail && ND_BOOL()) {
		vp_io_failed = 1;
		return SQFS_ERROR_IO;
	}
	VP_ASSERT(size <= VP_IMG, "stub bound: truncate inside the modelled file capacity");
	for (i = 0; i < VP_IMG; ++i) {
		if (i >= size)
			vp_img[i] = 0;
	}
	vp_img_size = size;
	vp_trunc_n++;
	vp_trunc_last = size;
	return 0;
}

static const char *vp_file_get_filename(sqfs_file_t *f)
{
	(void)f;
	return "vp";
}

static unsigned vp_file_destroyed;
static void vp_file_destroy(sqfs_object_t *o) { (void)o; vp_file_destroyed++; }

static sqfs_file_t vp_file;

static sqfs_file_t *vp_file_init(void)
{
	vp_file.base.refcount = 1;
	vp_file.base.destroy = vp_file_destroy;
	vp_file.base.copy = NULL;
	vp_file.read_at = vp_file_read_at;
	vp_file.write_at = vp_file_write_at;
	vp_file.get_size = vp_file_get_size;
	vp_file.truncate = vp_file_truncate;
	vp_file.get_filename = vp_file_get_filename;
	return &vp_file;
}

/* fill the image with unconstrained bytes, unconstrained size <= VP_IMG */
static void vp_img_symbolic(void)
{
	size_t i;
	for (i = 0; i < VP_IMG; ++i)
		vp_img[i] = ND_U8();
	vp_img_size = ND_U64();
	VP_ASSUME(vp_img_size <= VP_IMG);
}

/* ---- compressor stub ---- */
#ifndef VP_CMP_MAXOUT
#define VP_CMP_MAXOUT 16
#endif
static int vp_cmp_len_tab[4][4];	/* symbolic, chosen once */
static unsigned char vp_cmp_fill_tab[4][4];
static unsigned vp_cmp_calls;

static sqfs_s32 vp_cmp_do_block(sqfs_compressor_t *c, const sqfs_u8 *in, sqfs_u32 size,
				sqfs_u8 *out, sqfs_u32 outsize)
{
	int len;
	unsigned char fill;
	sqfs_u32 i;
	(void)c;
	vp_cmp_calls++;
	if (size == 0) {
		len = vp_cmp_len_tab[0][0];
		fill = vp_cmp_fill_tab[0][0];
	} else {
		len = vp_cmp_len_tab[in[0] & 3][size & 3];
		fill = vp_cmp_fill_tab[in[0] & 3][size & 3] ^ in[size - 1];
	}
	if (len < 0)
		return len;
	if ((sqfs_u32)len > outsize)
		return SQFS_ERROR_OVERFLOW;	/* contract: never more than outsize */
	for (i = 0; i < VP_CMP_MAXOUT; ++i) {
		if (i < (sqfs_u32)len)
			out[i] = (sqfs_u8)(fill + i);
	}
	return len;
}

static unsigned vp_cmp_destroyed;
static void vp_cmp_destroy(sqfs_object_t *o) { (void)o; vp_cmp_destroyed++; }
static sqfs_compressor_t vp_cmp;

static sqfs_compressor_t *vp_cmp_init(void)
{
	int i, j;
	for (i = 0; i < 4; ++i) {
		for (j = 0; j < 4; ++j) {
			int l = ND_I32();
			VP_ASSUME(l <= VP_CMP_MAXOUT);
			vp_cmp_len_tab[i][j] = l;
			vp_cmp_fill_tab[i][j] = ND_U8();
		}
	}
	vp_cmp.base.refcount = 1;
	vp_cmp.base.destroy = vp_cmp_destroy;
	vp_cmp.base.copy = NULL;
	vp_cmp.get_configuration = NULL;
	vp_cmp.write_options = NULL;
	vp_cmp.read_options = NULL;
	vp_cmp.do_block = vp_cmp_do_block;
	return &vp_cmp;
}

#endif /* VP_SQFS_STUBS_H */
