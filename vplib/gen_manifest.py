#!/usr/bin/env python3
"""regenerate MANIFEST.json from plans/*.py META + NOT_APPLICABLE below"""
import glob, json, os, sys
sys.path.insert(0, os.path.dirname(os.path.abspath(__file__)))
import core

ALL = ["C%02d" % i for i in range(1, 20)]
NA_REASON = {}
try:
    NA_REASON = json.load(open(os.path.join(core.VERIF, "not_applicable.json")))
except Exception:
    pass

hooks_commits = []
try:
    hooks_commits = [l.strip() for l in open(os.path.join(core.VERIF, "hooks_commits.txt")) if l.strip() and not l.startswith("#")]
except Exception:
    pass

checks, na = [], []
for pid in ALL:
    path = os.path.join(core.VERIF, "plans", pid + ".py")
    if not os.path.exists(path):
        na.append({"property_id": pid, "reason": NA_REASON.get(pid, "no check built yet (work in progress); not claimed")})
        continue
    plan = core.load_plan(pid)
    m = plan.META
    has_thorough = any("thorough" in o.get("tiers", ["quick", "thorough"]) for o in plan.OBLIGATIONS)
    c = {
        "property_id": pid,
        "quick_cmd": "./check %s --tier quick" % pid,
        "evidence_file": "/verif/evidence/%s.json" % pid,
        "replay_cmd_template": "./check %s --replay {path}" % pid,
        "engine": "cbmc",
        "level_claimed": {"category": "model_checking", "text": m["text"], "design_ref": m.get("design_ref", "DESIGN.md §4")},
        "level_note": m["note"],
        "technique": m.get("technique", "bounded symbolic execution of the real C code with CBMC (SAT/SMT)"),
    }
    if has_thorough:
        c["thorough_cmd"] = "./check %s --tier thorough" % pid
    checks.append(c)

man = {
    "version": 1,
    "setup_cmd": "./setup.sh",
    "hooks": {
        "guard": "AGENTD_SQUASHFS_TOOLS_NG_VERIF",
        "enable": "checks compile the real sources with goto-cc -DAGENTD_SQUASHFS_TOOLS_NG_VERIF=1 (plus -DAGENTD_SQUASHFS_TOOLS_NG_VERIF_<CONST>=<n> to scale buffer constants); the normal autotools build never defines it",
        "baseline_off_cmd": "cd /repo && make -j8 check",
        "source_commits": hooks_commits,
        "add_only": True,
    },
    "engines": [{
        "name": "cbmc",
        "path": "/verif/vplib/core.py",
        "serves_properties": [c["property_id"] for c in checks],
        "kind_free_text": "goto-cc compiles the real translation units from /repo's working tree on every run; cbmc 6.11 symbolically executes harness+real code within per-loop unwinding bounds (with unwinding assertions) and a SAT solver decides every assertion for all symbolic inputs; reachability witnesses guard against vacuity; counterexamples are replayed natively (gcc+ASan/UBSan) from the trace's nondet values",
    }],
    "checks": checks,
    "not_applicable": na,
    "notes": "All checks: ./check <id> --tier quick|thorough. Exit 0 held / 1 VIOLATION / 2 check broken (vacuous, timeout, build error: fails closed). known_findings.txt lists recorded findings and fixed defects.",
}
json.dump(man, open(os.path.join(core.VERIF, "MANIFEST.json"), "w"), indent=1)
print("checks:", [c["property_id"] for c in checks], "n/a:", [n["property_id"] for n in na])
