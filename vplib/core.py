#!/usr/bin/env python3
"""
Driver for the solver-based checks of /verif.

One *obligation* = real translation units from /repo (compiled with goto-cc
from the current working tree on every run) + stubs + one harness, decided by
one CBMC run (bit-precise SAT/SMT verdict over all values of the symbolic
inputs inside the stated bound).

Per-property verdict on a CBMC run:
  * every property whose description starts with "VP_REACH:" is a reachability
    witness and MUST be FAILED (otherwise the obligation is vacuous);
  * every other property must be SUCCESS;
  * "unwinding assertion" failures are bound violations: for obligations
    marked termination=True they are violations of the property (the loop does
    not terminate within the stated bound), otherwise the obligation is
    reported as inconclusive (bound too small) and the check fails closed.
"""
import concurrent.futures as cf
import hashlib
import importlib.util
import json
import os
import re
import resource
import shlex
import shutil
import subprocess
import sys
import time

VERIF = os.path.dirname(os.path.dirname(os.path.abspath(__file__)))
REPO = os.environ.get("VP_REPO", "/repo")
BUILD = os.path.join(VERIF, "build")
GUARD = "AGENTD_SQUASHFS_TOOLS_NG_VERIF"

STD_FLAGS = [
    "--unwinding-assertions",
    "--pointer-overflow-check",
    "--signed-overflow-check",
    "--undefined-shift-check",
    "--drop-unused-functions",
    "--object-bits", "12",
]
# CBMC 6 has --pointer-check --bounds-check --div-by-zero-check
# --pointer-primitive-check etc. on by default ("standard checks").


def log(msg):
    sys.stderr.write(msg + "\n")
    sys.stderr.flush()


def load_plan(pid):
    path = os.path.join(VERIF, "plans", pid + ".py")
    spec = importlib.util.spec_from_file_location("plan_" + pid, path)
    mod = importlib.util.module_from_spec(spec)
    spec.loader.exec_module(mod)
    return mod


def include_flags():
    inc = ["-I" + REPO + "/include", "-I" + REPO, "-I" + VERIF + "/stubs",
           "-I" + VERIF + "/harness"]
    used_fallback = False
    if not os.path.exists(os.path.join(REPO, "config.h")):
        inc.append("-I" + VERIF + "/stubs/config_fallback")
        used_fallback = True
    return inc, used_fallback


def cpp_defs(obl):
    d = ["-D_GNU_SOURCE", "-DHAVE_CONFIG_H", "-D" + GUARD + "=1", "-D__NO_CTYPE=1",
         "-DWITH_GZIP", "-DWITH_XZ", "-DWITH_ZSTD", "-DWITH_BZIP2",
         "-DWITH_LZ4"]
    for k, v in (obl.get("defines") or {}).items():
        if v is None:
            d.append("-D%s" % k)
        else:
            d.append("-D%s=%s" % (k, v))
    for f in obl.get("pre_include", []):
        d += ["-include", os.path.join(VERIF, f)]
    for i in obl.get("incdirs", []):
        d.append("-I" + os.path.join(REPO, i))
    return d


def src_list(obl):
    files = [os.path.join(REPO, s) for s in obl.get("sources", [])]
    files += [os.path.join(VERIF, s) for s in obl.get("stubs", [])]
    files.append(os.path.join(VERIF, obl["harness"]))
    return files


def run_limited(cmd, timeout, mem_gb, cwd, stdout_path):
    """run cmd with stack unlimited, address-space cap, wall cap; return
    (rc, seconds, peak_rss_mb, timed_out)"""
    def pre():
        try:
            resource.setrlimit(resource.RLIMIT_STACK,
                               (resource.RLIM_INFINITY, resource.RLIM_INFINITY))
        except Exception:
            pass
        if mem_gb:
            b = int(mem_gb * (1 << 30))
            resource.setrlimit(resource.RLIMIT_AS, (b, b))
        os.setsid()
    t0 = time.time()
    timed_out = False
    rssfile = stdout_path + ".rss"
    full = ["/usr/bin/time", "-o", rssfile, "-f", "%M"] + list(cmd)
    with open(stdout_path, "wb") as out, open(stdout_path + ".err", "wb") as err:
        p = subprocess.Popen(full, cwd=cwd, stdout=out, stderr=err,
                             preexec_fn=pre)
        try:
            p.wait(timeout=timeout)
        except subprocess.TimeoutExpired:
            timed_out = True
            try:
                os.killpg(p.pid, 9)
            except Exception:
                p.kill()
            p.wait()
    dt = time.time() - t0
    rss = 0.0
    try:
        rss = float(open(rssfile).read().strip().split()[-1]) / 1024.0
    except Exception:
        pass
    return p.returncode, dt, rss, timed_out


import threading
_parse_lock = threading.Lock()


def parse_cbmc_json(path):
    """returns (results list | None, status string, messages)"""
    try:
        with open(path, "rb") as f:
            raw = f.read().decode("utf-8", "replace")
        data = json.loads(raw)
    except Exception as e:
        # truncated output (killed): try to salvage nothing
        return None, "unparsable", [str(e)]
    results = None
    status = None
    msgs = []
    stats = {"steps": 0, "vccs": 0, "vccs_remaining": 0}
    for e in data:
        if not isinstance(e, dict):
            continue
        if "result" in e:
            results = e["result"]
        if "cProverStatus" in e:
            status = e["cProverStatus"]
        if e.get("messageType") in ("ERROR", "WARNING"):
            msgs.append(e.get("messageText", ""))
        mt = e.get("messageText", "")
        m = re.match(r"size of program expression: (\d+) steps", mt)
        if m:
            stats["steps"] = int(m.group(1))
        m = re.match(r"Generated (\d+) VCC\(s\), (\d+) remaining", mt)
        if m:
            stats["vccs"] = int(m.group(1))
            stats["vccs_remaining"] = int(m.group(2))
    parse_cbmc_json.last_stats = stats
    return results, status, msgs


def classify(results, obl):
    reach_fail, reach_ok, viol, unwind, nprops = [], [], [], [], 0
    errors = []
    for r in results:
        desc = r.get("description", "")
        st = r.get("status")
        if desc.startswith("VP_REACH:"):
            if st not in ("FAILURE", "SUCCESS"):
                errors.append(desc)
            (reach_ok if st == "FAILURE" else reach_fail).append(desc[9:])
            continue
        nprops += 1
        if st == "SUCCESS":
            continue
        if st != "FAILURE":
            # ERROR / UNKNOWN: the solver gave up (memory, time) - no verdict
            errors.append(desc)
            continue
        loc = r.get("sourceLocation", {})
        item = {
            "cbmc_property": r.get("property"),
            "description": desc,
            "file": loc.get("file", ""),
            "function": loc.get("function", ""),
            "line": loc.get("line", ""),
            "status": st,
        }
        if "unwinding assertion" in desc or r.get("property", "").find(".unwind.") >= 0:
            unwind.append(item)
        elif "recursion" in desc and "unwinding" in desc:
            unwind.append(item)
        else:
            viol.append(item)
    return reach_ok, reach_fail, viol, unwind, nprops, errors


def sanitize(name):
    return re.sub(r"[^A-Za-z0-9_.-]", "_", name)


def build_goto(obl, wdir):
    inc, fb = include_flags()
    gb = os.path.join(wdir, "h.gb")
    cmd = ["goto-cc"] + inc + cpp_defs(obl) + src_list(obl) + ["-o", gb]
    p = subprocess.run(cmd, cwd=wdir, stdout=subprocess.PIPE,
                       stderr=subprocess.STDOUT)
    with open(os.path.join(wdir, "goto-cc.log"), "wb") as f:
        f.write((" ".join(shlex.quote(c) for c in cmd) + "\n").encode())
        f.write(p.stdout)
    out = p.stdout.decode("utf-8", "replace")
    if p.returncode != 0 or not os.path.exists(gb):
        return None, fb, out
    # optional goto-instrument passes (e.g. --restrict-function-pointer)
    passes = [list(a) for a in obl.get("instrument", [])]
    if obl.get("fp_map"):
        r = fp_restrictions(gb, obl["fp_map"], wdir)
        if r:
            passes.insert(0, r)
    for i, args in enumerate(passes):
        gb2 = os.path.join(wdir, "h.i%d.gb" % i)
        q = subprocess.run(["goto-instrument"] + list(args) + [gb, gb2], cwd=wdir,
                           stdout=subprocess.PIPE, stderr=subprocess.STDOUT)
        with open(os.path.join(wdir, "goto-cc.log"), "ab") as f:
            f.write(q.stdout)
        if q.returncode != 0 or not os.path.exists(gb2):
            return None, fb, out + q.stdout.decode("utf-8", "replace")
        gb = gb2
    return gb, fb, out


def fp_restrictions(gb, fp_map, wdir):
    """CBMC resolves a call through a struct member function pointer to EVERY
    address-taken function with a compatible signature (pointers and 64-bit
    integers are all 'compatible'), which makes e.g. file->read_at() fan out to
    write_at() and to unrelated callbacks.  The plan states, per member name,
    which functions can be installed there in this harness (fp_map); this
    routine finds all call sites through that member in the goto binary and
    emits --restrict-function-pointer options for them."""
    p = subprocess.run(["goto-instrument", "--show-goto-functions", gb], cwd=wdir,
                       stdout=subprocess.PIPE, stderr=subprocess.DEVNULL)
    txt = p.stdout.decode("utf-8", "replace")
    funcs = set(re.findall(r"^([A-Za-z_][A-Za-z_0-9$.]*) /\* ", txt, re.M))
    args = []
    seen = set()
    cur = None
    n = 0
    for line in txt.splitlines():
        m = re.match(r"^([A-Za-z_][A-Za-z_0-9$.]*) /\* ", line)
        if m:
            cur = m.group(1)
            n = 0
            continue
        if " CALL " not in line and not line.strip().startswith("CALL "):
            continue
        m = re.search(r"CALL (?:[^(]*? := )?\*(.*)$", line)
        if not m:
            continue
        rest = m.group(1)
        # callee expression is a dereference => function pointer call site
        n += 1
        mm = re.match(r"\((.*?)\)\(", rest)
        callee = mm.group(1) if mm else rest.split("(")[0]
        mem = re.findall(r"\.([A-Za-z_][A-Za-z_0-9]*)\)*$", callee)
        member = mem[-1] if mem else None
        if member is None:
            mem = re.findall(r"([A-Za-z_][A-Za-z_0-9]*)\)*$", callee)
            member = mem[-1] if mem else None
        if member in fp_map:
            targets = [t for t in fp_map[member] if t in funcs]
            label = "%s.function_pointer_call.%d" % (cur, n)
            if targets and label not in seen:
                seen.add(label)
                args += ["--restrict-function-pointer", label + "/" + ",".join(targets)]
    return args


def cbmc_cmd(obl, gb, extra=()):
    cmd = ["cbmc", gb, "--function", obl.get("entry", "harness")]
    cmd += ["--unwind", str(obl.get("unwind", 4))]
    us = obl.get("unwindset")
    if us:
        if isinstance(us, dict):
            us = ["%s:%d" % (k, v) for k, v in us.items()]
        cmd += ["--unwindset", ",".join(us)]
    flags = list(STD_FLAGS)
    for f in obl.get("drop_flags", []):
        while f in flags:
            flags.remove(f)
    cmd += flags
    if obl.get("malloc_fail"):
        cmd += ["--malloc-may-fail", "--malloc-fail-null"]
    else:
        cmd += ["--no-malloc-may-fail"]
    if obl.get("leak"):
        cmd += ["--memory-leak-check"]
    be = obl.get("backend")
    if be == "cadical":
        cmd += ["--sat-solver", "cadical"]
    elif be == "kissat":
        cmd += ["--external-sat-solver", "kissat"]
    elif be in ("z3", "cvc5"):
        cmd += ["--" + be]
    cmd += list(obl.get("flags", []))
    cmd += ["--json-ui", "--verbosity", "8"]
    cmd += list(extra)
    return cmd


def run_callgraph(pid, obl, tier):
    """Static obligation on the compiler's IR (NOT a solver query, labelled as
    such in evidence): link the listed real sources into one goto binary,
    compute the call graph reachable from main and require that no forbidden
    function is reachable except through explicitly allowed edges."""
    import glob as _glob
    name = obl["name"]
    wdir = os.path.join(BUILD, pid, sanitize(name))
    shutil.rmtree(wdir, ignore_errors=True)
    os.makedirs(wdir)
    res = {"name": name, "status": "error", "violations": [], "unwind": [], "reach_ok": [], "reach_missing": [],
           "n_props": 0, "seconds": 0.0, "rss_mb": 0.0, "wdir": wdir, "messages": [], "stats": {"steps": 0, "vccs": 0}}
    t0 = time.time()
    srcs = []
    for pat in obl["source_globs"]:
        srcs += sorted(_glob.glob(os.path.join(REPO, pat)))
    srcs = [s for s in srcs if not re.search(obl.get("exclude", r"$^"), s)]
    inc, fb = include_flags()
    gb = os.path.join(wdir, "prog.gb")
    cmd = ["goto-cc"] + inc + cpp_defs(obl) + srcs + ["-o", gb]
    p = subprocess.run(cmd, cwd=wdir, stdout=subprocess.PIPE, stderr=subprocess.STDOUT)
    open(os.path.join(wdir, "goto-cc.log"), "wb").write(p.stdout)
    if p.returncode != 0 or not os.path.exists(gb):
        res["messages"].append("goto-cc failed: " + p.stdout.decode("utf-8", "replace")[-1500:])
        return res
    q = subprocess.run(["goto-instrument", "--reachable-call-graph", gb], cwd=wdir, stdout=subprocess.PIPE, stderr=subprocess.DEVNULL)
    edges = set()
    for line in q.stdout.decode("utf-8", "replace").splitlines():
        m = re.match(r"^(\S+) -> (\S+)$", line.strip())
        if m:
            edges.add((m.group(1), m.group(2)))
    res["n_props"] = len(edges)
    res["stats"] = {"steps": len(edges), "vccs": len(set(e[1] for e in edges))}
    if not edges or not any(e[0] == "main" for e in edges):
        res["status"] = "vacuous"
        res["messages"].append("empty call graph / main not found")
        return res
    forb = set(obl["forbidden"])
    allowed = set(tuple(e) for e in obl.get("allowed_edges", []))
    for (a, b) in sorted(edges):
        if b in forb and (a, b) not in allowed:
            res["violations"].append({"cbmc_property": "callgraph.%s.%s" % (a, b), "description": "VP_PROP:" + obl.get("message", "forbidden function reachable") + ": %s -> %s" % (a, b),
                                      "file": "", "function": a, "line": "", "status": "FAILURE"})
    res["reach_ok"] = ["call_graph_%d_edges" % len(edges)]
    res["status"] = "fail" if res["violations"] else "pass"
    res["seconds"] = time.time() - t0
    res["solver_seconds"] = 0.0
    return res


def run_obligation(pid, obl, tier):
    """returns a result dict"""
    if obl.get("kind") == "callgraph":
        return run_callgraph(pid, obl, tier)
    name = obl["name"]
    wdir = os.path.join(BUILD, pid, sanitize(name))
    shutil.rmtree(wdir, ignore_errors=True)
    os.makedirs(wdir)
    res = {"name": name, "status": "error", "violations": [], "unwind": [],
           "reach_ok": [], "reach_missing": [], "n_props": 0, "seconds": 0.0,
           "rss_mb": 0.0, "wdir": wdir, "messages": []}
    t0 = time.time()
    gb, fb, cclog = build_goto(obl, wdir)
    res["config_fallback"] = fb
    if gb is None:
        res["status"] = "error"
        res["messages"].append("goto-cc failed: " + cclog[-2000:])
        res["seconds"] = time.time() - t0
        return res
    res["gb"] = gb
    cmd = cbmc_cmd(obl, gb)
    with open(os.path.join(wdir, "cbmc.cmd"), "w") as f:
        f.write(" ".join(shlex.quote(c) for c in cmd) + "\n")
    timeout = obl.get("timeout", 600)
    if tier == "thorough":
        timeout = int(obl.get("timeout_thorough", timeout * 3) * float(os.environ.get("VP_TIMEOUT_SCALE_THOROUGH", "2")))
    else:
        # the per-obligation limits were measured on an idle 16 core machine; a
        # loaded or slower machine must not turn a passing obligation into an
        # inconclusive one (vp check #6: frontend obligations, 170 s here,
        # hit their 300 s limit).  The limit only bounds how long a hanging
        # query is waited for, it never changes a verdict.
        timeout = int(timeout * float(os.environ.get("VP_TIMEOUT_SCALE", "4")))
    rc, dt, rss, to = run_limited(cmd, timeout, obl.get("mem_gb", 16), wdir,
                                  os.path.join(wdir, "cbmc.json"))
    res["seconds"] = time.time() - t0
    res["solver_seconds"] = dt
    res["rss_mb"] = rss
    if to:
        res["status"] = "inconclusive"
        res["messages"].append("timeout after %ds" % timeout)
        return res
    with _parse_lock:
        results, status, msgs = parse_cbmc_json(os.path.join(wdir, "cbmc.json"))
        res["stats"] = dict(getattr(parse_cbmc_json, "last_stats", {}) or {})
    if results is None:
        res["status"] = "inconclusive" if rc in (-9, -11, 137, 139, 6, -6) else "error"
        try:
            err = open(os.path.join(wdir, "cbmc.json.err")).read()[-1500:]
        except Exception:
            err = ""
        res["messages"].append("no result from cbmc (rc=%s, status=%s) %s %s" %
                               (rc, status, " | ".join(msgs[-5:]), err))
        return res
    reach_ok, reach_fail, viol, unwind, nprops, errors = classify(results, obl)
    # UNKNOWN is also what CBMC reports for properties that are only reachable
    # after a *fatal* failed property; so a missing verdict only makes the
    # obligation inconclusive when nothing failed
    if errors and not viol and not (obl.get("termination") and unwind):
        res["status"] = "inconclusive"
        res["n_props"] = nprops
        res["messages"].append("solver returned no verdict for %d properties (%s)" % (len(errors), "; ".join(msgs[-2:])))
        return res
    res["n_props"] = nprops
    res["reach_ok"] = reach_ok
    res["reach_missing"] = reach_fail
    res["violations"] = viol
    res["unwind"] = unwind
    want = obl.get("reach")
    if want:
        # only the labels the plan requires for this shape must be reachable
        res["reach_missing"] = [w for w in want if w not in reach_ok]
    res["reach_unreached_optional"] = [w for w in reach_fail if not want or w not in want]
    if not want:
        # no explicit requirement: at least one witness must be reachable
        res["reach_missing"] = [] if reach_ok else list(reach_fail)
    if obl.get("termination"):
        # loops exceeding the stated bound ARE the violation
        res["violations"] = viol + unwind
        res["unwind"] = []
    if res["violations"]:
        res["status"] = "fail"
    elif res["unwind"]:
        res["status"] = "inconclusive"
        res["messages"].append("unwinding bound too small: " +
                               "; ".join(u["description"] + "@" + u["function"] for u in res["unwind"][:5]))
    elif res["reach_missing"] and not obl.get("allow_unreached"):
        res["status"] = "vacuous"
        res["messages"].append("reachability witness not reached: " + ", ".join(res["reach_missing"]))
    elif not reach_ok and not obl.get("allow_unreached"):
        res["status"] = "vacuous"
        res["messages"].append("harness has no reachability witness")
    else:
        res["status"] = "pass"
    return res


# --------------------------------------------------------------------------
# counterexample extraction and native replay


def extract_values(trace):
    vals = []
    for s in trace:
        if s.get("stepType") != "assignment" or s.get("hidden"):
            continue
        lhs = s.get("lhs", "")
        if not lhs.startswith("return_value_nondet_"):
            continue
        v = s.get("value", {})
        b = v.get("binary")
        if b is None:
            d = v.get("data", "0")
            if d in ("TRUE", "true"):
                vals.append(1)
            elif d in ("FALSE", "false"):
                vals.append(0)
            else:
                try:
                    vals.append(int(re.sub(r"[uUlL]+$", "", d)))
                except Exception:
                    vals.append(0)
            continue
        x = int(b, 2)
        t = v.get("type", "")
        if ("unsigned" not in t and "size_t" not in t and "_Bool" not in t
                and b[0] == "1" and ("signed" in t or t in ("int", "long", "char", "short"))):
            x -= 1 << len(b)
        vals.append(x)
    return vals


def get_trace(obl, res, viol):
    wdir = res["wdir"]
    gb = res.get("gb") or os.path.join(wdir, "h.gb")
    extra = ["--trace", "--property", viol["cbmc_property"]]
    cmd = cbmc_cmd(obl, gb, extra)
    out = os.path.join(wdir, "trace_%s.json" % sanitize(viol["cbmc_property"]))
    run_limited(cmd, obl.get("timeout", 600) * 2, obl.get("mem_gb", 16), wdir, out)
    results, status, msgs = parse_cbmc_json(out)
    if not results:
        return None, out
    for r in results:
        if r.get("property") == viol["cbmc_property"] and "trace" in r:
            return r["trace"], out
    return None, out


def native_replay(obl, bundle, values, hang_is_violation):
    """build the same harness + real sources natively and feed the values.
    returns (status, text) with status in confirmed|not_reproduced|diverged|build_failed"""
    inc, _ = include_flags()
    exe = os.path.join(bundle, "replay.exe")
    vals = os.path.join(bundle, "values.txt")
    with open(vals, "w") as f:
        for v in values:
            f.write("%d\n" % v)
    base = ["gcc", "-g", "-O0", "-fsanitize=address,undefined",
            "-fno-sanitize-recover=undefined", "-fno-omit-frame-pointer",
            "-DVP_REPLAY=1", "-w", "-ffunction-sections", "-fdata-sections"]
    # the replay runtime must not see the harness' pre-includes (allocator caps ...)
    rt_obj = os.path.join(bundle, "replay_nondet.o")
    cmd0 = base + ["-c", os.path.join(VERIF, "stubs/replay_nondet.c"), "-o", rt_obj]
    cmd = base + ["-Wl,--gc-sections"] + inc + cpp_defs(obl)
    cmd += src_list(obl)
    cmd += [os.path.join(VERIF, s) for s in obl.get("replay_stubs", [])]
    cmd += [rt_obj, "-o", exe]
    cmd += obl.get("replay_libs", [])
    with open(os.path.join(bundle, "run.sh"), "w") as f:
        f.write("#!/bin/sh\n# rebuild and re-run the counterexample natively (ASan+UBSan)\n")
        f.write("set -e\ncd \"$(dirname \"$0\")\"\n")
        f.write(" ".join(shlex.quote(c) for c in cmd0).replace(rt_obj, "./replay_nondet.o") + "\n")
        f.write(" ".join(shlex.quote(c) for c in cmd).replace(exe, "./replay.exe").replace(rt_obj, "./replay_nondet.o") + "\n")
        f.write("VP_VALUES=./values.txt ASAN_OPTIONS=detect_leaks=0 timeout 20 ./replay.exe\n")
    os.chmod(os.path.join(bundle, "run.sh"), 0o755)
    p0 = subprocess.run(cmd0, stdout=subprocess.PIPE, stderr=subprocess.STDOUT)
    p = subprocess.run(cmd, stdout=subprocess.PIPE, stderr=subprocess.STDOUT)
    if p0.returncode != 0 or p.returncode != 0:
        return "build_failed", (p0.stdout + p.stdout).decode("utf-8", "replace")[-3000:]
    env = dict(os.environ, VP_VALUES=vals, ASAN_OPTIONS="detect_leaks=0:abort_on_error=0")
    try:
        r = subprocess.run([exe], stdout=subprocess.PIPE, stderr=subprocess.STDOUT,
                           env=env, timeout=20)
    except subprocess.TimeoutExpired:
        if hang_is_violation:
            return "confirmed", "native replay did not terminate within 20 s (hang)"
        return "not_reproduced", "native replay timed out"
    txt = r.stdout.decode("utf-8", "replace")[-4000:]
    try:
        os.unlink(exe)
    except Exception:
        pass
    if r.returncode == 77:
        return "diverged", txt
    if r.returncode in (126, 127):
        return "build_failed", txt
    if r.returncode == 0:
        return "not_reproduced", txt
    return "confirmed", txt


# --------------------------------------------------------------------------
# known findings


def load_known(pid):
    known = []
    path = os.path.join(VERIF, "known_findings.txt")
    if not os.path.exists(path):
        return known
    for line in open(path):
        line = line.strip()
        if not line.startswith("known:"):
            continue
        m = re.match(r"known:\s+property=(\S+)\s+obligation=(\S+)\s+match=\"([^\"]*)\"\s*(.*)", line)
        if not m or m.group(1) != pid:
            continue
        known.append({"obligation": m.group(2), "match": m.group(3), "text": m.group(4)})
    return known


def match_known(known, oname, viol):
    for k in known:
        if not re.fullmatch(k["obligation"].replace("*", ".*"), oname):
            continue
        hay = "%s @%s:%s" % (viol["description"], os.path.basename(viol["file"]), viol["function"])
        if k["match"] in hay:
            return k
    return None


# --------------------------------------------------------------------------


def run_property(pid, tier, only=None, jobs=None):
    t_start = time.time()
    plan = load_plan(pid)
    obls = [o for o in plan.OBLIGATIONS if tier in o.get("tiers", ["quick", "thorough"])]
    if only:
        obls = [o for o in obls if re.search(only, o["name"])]
    if not obls:
        log("no obligations selected")
        return 2
    jobs = jobs or int(os.environ.get("VP_JOBS", "14"))
    # heavy first
    order = sorted(obls, key=lambda o: -o.get("weight", 1))
    results = {}
    with cf.ThreadPoolExecutor(max_workers=jobs) as ex:
        futs = {ex.submit(run_obligation, pid, o, tier): o for o in order}
        for fu in cf.as_completed(futs):
            o = futs[fu]
            try:
                r = fu.result()
            except Exception as e:  # driver bug: fail closed
                r = {"name": o["name"], "status": "error", "messages": [repr(e)],
                     "violations": [], "unwind": [], "reach_ok": [], "reach_missing": [],
                     "n_props": 0, "seconds": 0, "rss_mb": 0, "wdir": ""}
            results[o["name"]] = r
            log("[%s] %-40s %-12s props=%d %.1fs %s" % (
                pid, o["name"], r["status"], r["n_props"], r["seconds"],
                "; ".join(r["messages"])[:300]))

    known = load_known(pid)
    known_hit, violations, broken = [], [], []
    for o in obls:
        r = results[o["name"]]
        if r["status"] == "pass":
            continue
        if r["status"] != "fail":
            broken.append((o, r))
            continue
        # one report per source line (a single defect usually trips many of
        # CBMC's per-dereference checks at the same line)
        groups = {}
        for v in r["violations"]:
            k = match_known(known, o["name"], v)
            if k:
                known_hit.append((o, v, k))
                continue
            key = (v["file"], v["line"])
            g = groups.setdefault(key, [])
            g.append(v)
        for key, g in groups.items():
            g.sort(key=lambda v: (0 if v["description"].startswith("VP_PROP:") else 1))
            rep = dict(g[0])
            rep["also_failed_at_this_line"] = [x["description"] for x in g[1:]][:20]
            rep["count_at_line"] = len(g)
            violations.append((o, r, rep))

    # replay (at most 3 per obligation to bound the time; all are reported)
    replay_root = os.path.join(VERIF, "replay", pid)
    shutil.rmtree(replay_root, ignore_errors=True)
    reported = []
    per_obl = {}
    for o, r, v in violations:
        n = per_obl.get(o["name"], 0)
        per_obl[o["name"]] = n + 1
        bundle = os.path.join(replay_root, sanitize(o["name"]),
                              sanitize(v["cbmc_property"] or "p"))
        shutil.rmtree(bundle, ignore_errors=True)
        os.makedirs(bundle)
        info = {"property": pid, "obligation": o["name"], "violated": v,
                "bound": o.get("bound", ""), "tier": tier}
        if n < 3 and not o.get("no_replay") and o.get("kind") != "callgraph":
            trace, tpath = get_trace(o, r, v)
            if trace is not None:
                vals = extract_values(trace)
                info["nondet_values"] = vals
                try:
                    shutil.copy(tpath, os.path.join(bundle, "cbmc_trace.json"))
                except Exception:
                    pass
                is_unwind = "unwinding" in v["description"]
                st, txt = native_replay(o, bundle, vals, is_unwind)
                info["replay_status"] = st
                info["replay_output"] = txt
            else:
                info["replay_status"] = "no_trace"
        else:
            info["replay_status"] = "skipped"
        with open(os.path.join(bundle, "violation.json"), "w") as f:
            json.dump(info, f, indent=1)
        reported.append((o, v, bundle, info["replay_status"]))

    printed = set()
    for o, v, k in known_hit:
        key = (o["name"], k["text"])
        if key in printed:
            continue
        printed.add(key)
        print("KNOWN-FINDING: property=%s obligation=%s %s [%s]" % (
            pid, o["name"], k["text"], v["description"]))
    for o, v, bundle, st in reported:
        print("VIOLATION property=%s replay=%s obligation=%s replay_status=%s :: %s (%s:%s %s)%s" % (
            pid, bundle, o["name"], st, v["description"], os.path.basename(v["file"]),
            v["line"], v["function"],
            (" [+%d more failed checks at this line]" % (v["count_at_line"] - 1)) if v.get("count_at_line", 1) > 1 else ""))
    for o, r in broken:
        print("BROKEN-CHECK property=%s obligation=%s status=%s %s" % (
            pid, o["name"], r["status"], "; ".join(r["messages"])[:500]))
    sys.stdout.flush()

    if only:
        log("(--only given: evidence file not rewritten)")
    else:
        write_evidence(pid, plan, tier, obls, results, known_hit, reported, broken,
                       time.time() - t_start)
    if reported:
        return 1
    if broken:
        return 2
    return 0


def write_evidence(pid, plan, tier, obls, results, known_hit, reported, broken, wall):
    funcs, bounds, assumptions, outside = [], [], [], []
    samples = []
    queries = 0
    solver_time = 0.0
    peak = 0.0
    nprops = 0
    nontrivial = 0
    shapes = []
    steps = vccs = 0
    for o in obls:
        r = results[o["name"]]
        queries += 1
        steps += (r.get("stats") or {}).get("steps", 0)
        vccs += (r.get("stats") or {}).get("vccs", 0)
        solver_time += r.get("solver_seconds", 0.0)
        peak = max(peak, r.get("rss_mb", 0.0))
        nprops += r.get("n_props", 0)
        if r["status"] in ("pass", "fail") and r.get("reach_ok"):
            nontrivial += 1
        for f in o.get("functions", []):
            if f not in funcs:
                funcs.append(f)
        for a in o.get("assumptions", []):
            if a not in assumptions:
                assumptions.append(a)
        if o.get("bound"):
            bounds.append("%s: %s" % (o["name"], o["bound"]))
        shapes.append(o["name"])
        if len(samples) < 6:
            samples.append({
                "obligation": o["name"],
                "real_sources": o.get("sources", []) + o.get("included_sources", []) + o.get("source_globs", []),
                "harness": o.get("harness", "(none: static call-graph obligation)"),
                "defines": o.get("defines", {}),
                "unwind": o.get("unwind", 4),
                "unwindset": o.get("unwindset", {}),
                "bound": o.get("bound", ""),
                "cbmc_properties_checked": r.get("n_props", 0),
                "reachability_witnesses_hit": r.get("reach_ok", []),
                "verdict": r["status"],
                "seconds": round(r.get("seconds", 0.0), 2),
                "peak_rss_mb": round(r.get("rss_mb", 0.0), 1),
            })
    for a in getattr(plan, "ASSUMPTIONS", []):
        if a not in assumptions:
            assumptions.append(a)
    outside = list(getattr(plan, "OUTSIDE", []))
    ev = {
        "property_id": pid,
        "tier": tier,
        "seed": int(os.environ.get("VERIF_SEED", "0") or 0),
        "level": "model_checking",
        "coverage": {
            "evaluations": queries,
            "distinct_nontrivial": nontrivial,
            "rule": "one evaluation = one CBMC query (bit-precise SAT verdict over all values of the "
                    "symbolic inputs within the obligation's bound) on real /repo translation units "
                    "compiled with goto-cc in this run; an obligation counts as non-trivial when its "
                    "reachability witness(es) (assert(0) at the end of the harness paths) came back "
                    "FAILED, i.e. assumptions are satisfiable and the oracle is reached, and a verdict "
                    "(not timeout/oom) was obtained; obligations are distinct by name (harness x shape).",
            "samples": samples,
            "exhaustive": False,
            "states": max(steps, 1),
            "transitions": max(vccs, 1),
            "traces_validated_against_impl": sum(1 for o, v, b, st in reported if st == "confirmed"),
            "states_transitions_meaning": "bounded model checking has no explicit state graph: 'states' is the measured total size of the "
                "unwound program expressions (SSA steps) CBMC generated for this run's obligations, 'transitions' the total number of verification "
                "conditions generated from them; 'traces_validated_against_impl' counts solver counterexamples of this run that were replayed "
                "natively (gcc+ASan/UBSan, real sources) and reproduced",
            "technique": "bounded symbolic execution of the real C code (CBMC 6.11, goto-cc) + SAT",
            "functions_encoded": funcs,
            "bounds": bounds,
            "outside_bounds": outside,
            "queries": queries,
            "obligations_run": shapes,
            "solver_time_s": round(solver_time, 2),
            "peak_rss_mb": round(peak, 1),
            "cbmc_properties_checked": nprops,
            "vacuous_or_inconclusive": [{"obligation": o["name"], "status": r["status"],
                                         "messages": r["messages"]} for o, r in broken],
            "known_findings_hit": [{"obligation": o["name"], "finding": k["text"],
                                    "description": v["description"]} for o, v, k in known_hit],
            "violations": [{"obligation": o["name"], "description": v["description"],
                            "location": "%s:%s" % (v["file"], v["line"]),
                            "replay": b, "replay_status": st} for o, v, b, st in reported],
            "repo_head": git_head(),
        },
        "assumptions": assumptions,
        "wall_s": round(wall, 2),
        "violations": len(reported),
    }
    os.makedirs(os.path.join(VERIF, "evidence"), exist_ok=True)
    tmp = os.path.join(VERIF, "evidence", pid + ".json.tmp")
    with open(tmp, "w") as f:
        json.dump(ev, f, indent=1)
    os.replace(tmp, os.path.join(VERIF, "evidence", pid + ".json"))


def git_head():
    try:
        h = subprocess.run(["git", "-C", REPO, "rev-parse", "HEAD"], stdout=subprocess.PIPE,
                           stderr=subprocess.DEVNULL).stdout.decode().strip()
        d = subprocess.run(["git", "-C", REPO, "status", "--porcelain", "--untracked-files=no"],
                           stdout=subprocess.PIPE, stderr=subprocess.DEVNULL).stdout.decode().strip()
        return h + ("+dirty" if d else "")
    except Exception:
        return "unknown"


def main(argv):
    import argparse
    ap = argparse.ArgumentParser()
    ap.add_argument("property")
    ap.add_argument("--tier", default=os.environ.get("VERIF_TIER", "quick"),
                    choices=["quick", "thorough"])
    ap.add_argument("--only", default=None, help="regex on obligation names (debugging)")
    ap.add_argument("--jobs", type=int, default=None)
    ap.add_argument("--replay", default=None, help="re-run a replay bundle")
    a = ap.parse_args(argv)
    if a.replay:
        return subprocess.call([os.path.join(a.replay, "run.sh")])
    return run_property(a.property, a.tier, a.only, a.jobs)


if __name__ == "__main__":
    sys.exit(main(sys.argv[1:]))
