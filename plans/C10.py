"""C10: reader answers depend only on image and query (history independence)."""
FP = {'read_at': ['vp_file_read_at'], 'write_at': ['vp_file_write_at'], 'do_block': ['vp_cmp_do_block'],
      'get_buffered_data': ['dr_stream_get_buffered_data'], 'advance_buffer': ['dr_stream_advance_buffer']}
OBLIGATIONS = []

def meta(name, mode, meta_sz, img, rd, tiers, timeout):
    hist = {2: "seek(b1,o1) ; seek(b,o)+read(n)", 3: "seek(b1,o1) [; read(n1)] ; seek(b2,o2) ; seek(b,o)+read(n)"}[mode]
    return dict(name=name, harness="harness/C05_meta.c", sources=["lib/sqfs/src/meta_reader.c"], pre_include=["stubs/vp_pre_meta.h"],
        defines=dict(MODE=mode, VP_META=meta_sz, VP_IMG=img, RD=rd, VP_CMP_MAXOUT=meta_sz, VP_MAXIO=meta_sz), unwind=img + 2,
        unwindset={"sqfs_meta_reader_read.0": rd + 1, "vp_cmp_do_block.0": meta_sz + 1, "vp_cmp_init.0": 5, "vp_cmp_init.1": 5,
                   "harness.0": rd + 1, "vp_file_read_at.0": meta_sz + 1},
        tiers=tiers, timeout=timeout, fp_map=FP, reach=["both_ok", "both_fail"] + (["ok_after_failed_op"] if mode == 2 else []),
        functions=["sqfs_meta_reader_seek, sqfs_meta_reader_read, sqfs_meta_reader_create (lib/sqfs/src/meta_reader.c)"],
        bound="history %s on a used reader vs. the last step on a fresh reader; all arguments symbolic (valid and invalid), every image <= %d bytes, "
              "metadata block size %d, final read <= %d bytes, arbitrary deterministic decompressor" % (hist, img, meta_sz, rd))
OBLIGATIONS += [
    meta("meta_hist3_m3_img12_rd1", 3, 3, 12, 1, ["quick", "thorough"], 400),
    meta("meta_hist2_m3_img12_rd2", 2, 3, 12, 2, ["quick", "thorough"], 600),
    meta("meta_hist2_m4_img16_rd3", 2, 4, 16, 3, ["thorough"], 900),
    meta("meta_hist3_m4_img16_rd1", 3, 4, 16, 1, ["thorough"], 900),
]

def data(name, mode, nw, img, rd, nfrag, bs, tiers, timeout, hist3=False):
    what = {5: "one arbitrary operation (read or get_fragment on inode X, may fail) then read(Y,off,n) on the used reader == read(Y,off,n) on a fresh reader",
            6: "positional read of the whole file == concatenation of the stream chunks (two readers, same inode)"}[mode]
    return dict(name=name, harness="harness/C05_data.c", sources=["lib/sqfs/src/inode.c", "lib/util/src/alloc.c"],
        included_sources=["lib/sqfs/src/data_reader.c"],
        defines=dict(dict(MODE=mode, BS=bs, NW=nw, NFRAG=nfrag, VP_IMG=img, VP_MAXIO=bs, VP_CMP_MAXOUT=bs, RD=rd), **({"HIST3": 1} if hist3 else {})), unwind=max(8, rd + 2),
        unwindset={"vp_cmp_init.0": 5, "vp_cmp_init.1": 5, "vp_img_symbolic.0": img + 1},
        tiers=tiers, timeout=timeout, fp_map=FP, reach=["both_ok"] if mode == 5 else ["both_complete"],
        functions=["sqfs_data_reader_read, sqfs_data_reader_get_fragment, precache_data_block, precache_fragment_block, get_block, "
                   "dr_stream_get_buffered_data (lib/sqfs/src/data_reader.c)"],
        bound="%s; two arbitrary file inodes with %d block words each, arbitrary image <= %d bytes (valid and damaged), %d arbitrary fragment "
              "entries, block size %d, lengths <= %d" % (what, nw, img, nfrag, bs, rd))
OBLIGATIONS += [
    data("data_hist2_w0", 5, 0, 8, 3, 1, 4, ["quick", "thorough"], 300),
    data("data_hist2_w1_bs2", 5, 1, 6, 2, 1, 2, ["quick", "thorough"], 300),
    data("data_hist3_w0", 5, 0, 8, 3, 1, 4, ["quick", "thorough"], 600, True),
    data("data_hist3_w1_bs2", 5, 1, 6, 2, 1, 2, ["thorough"], 1800, True),
    data("data_hist2_w2_bs2", 5, 2, 8, 4, 1, 2, ["thorough"], 900),
    data("data_hist2_w1_bs4", 5, 1, 8, 3, 1, 4, ["thorough"], 900),
    data("data_hist2_w1_bs4_img12", 5, 1, 12, 6, 2, 4, ["thorough"], 1800),
    data("data_read_vs_stream_w1", 6, 1, 12, 6, 2, 4, ["quick", "thorough"], 300),
    data("data_read_vs_stream_w2", 6, 2, 12, 8, 2, 4, ["thorough"], 900),
    data("data_read_vs_stream_w0", 6, 0, 12, 3, 2, 4, ["quick", "thorough"], 300),
]

ASSUMPTIONS = [
    "decompressor is deterministic (stub: fixed symbolic tables shared by both readers)",
    "file content does not change between calls",
    "file stub / compressor stub / static object layout as in C05",
]
OUTSIDE = [
    "histories longer than 3 operations (data reader: 3 with the repeated final query) (the caches hold one block; length 3 reaches 'loaded, then failed load, then hit')",
    "dir reader / xattr reader / id and fragment table lookups (argued in DESIGN.md: state lives in the caller's cursor or is read-only)",
    "lz4 decompressor internals",
]
META = dict(
    text="Two executions of the real reader code in one CBMC query: a reader that already performed arbitrary (valid, invalid, failing) operations and "
         "a fresh reader answer the same final query on the same symbolic image; the solver proves equal status and equal bytes for all images, "
         "arguments and decompressor behaviours within the bound. Also: positional read and stream API agree on every inode.",
    note="Trusted: stubs as in C05; bounds on image size, block size and history length (<= 3). Directory/xattr readers not covered here.",
    design_ref="DESIGN.md §4 C10",
    technique="CBMC relational (2-run) bounded symbolic execution of real meta_reader.c / data_reader.c, SAT",
)
