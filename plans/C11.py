"""C11: packing is independent of the host's enumeration order."""
OBLIGATIONS = []
def tree(mode, k, s, nl, tiers, timeout=300):
    return dict(name="%s_k%d_s%d_nl%d" % ({1: "insert_any_order", 2: "numbering_structure_only", 3: "lookup_exact_name"}[mode], k, s, nl), harness="harness/C11_fstree.c", sources=["lib/util/src/canonicalize_name.c"],
        included_sources=["lib/fstree/src/fstree.c", "lib/fstree/src/post_process.c"], defines=dict(MODE=mode, K=k, S=s, NL=nl),
        unwind=k + s + 3, unwindset={'alloc_inode_num_dfs': 3, 'map_inodes_dfs': 3, 'file_list_dfs': 3}, tiers=tiers, timeout=timeout,
        reach=["flat"] if mode == 1 else (["found", "not_found"] if mode == 3 else ["with_subdir"]),
        functions=["insert_sorted (lib/fstree/src/fstree.c)"] if mode == 1 else ["child_by_name, insert_sorted (lib/fstree/src/fstree.c)"] if mode == 3 else ["alloc_inode_num_dfs, map_inodes_dfs, file_list_dfs (lib/fstree/src/post_process.c)"],
        bound=("%d siblings with names <= %d bytes (all byte values, pairwise distinct), unconstrained in order => every insertion order of every name set" % (k, nl)) if mode == 1 else ("%d siblings with names <= %d bytes, any query component of 1..%d bytes followed by any byte" % (k, nl, nl)) if mode == 3 else
              ("fixed list structure root->[%d children, second one a directory with %d children]; names, owners, times symbolic: results must be constants" % (k, s)))
OBLIGATIONS += [tree(3, 2, 0, 2, ["quick", "thorough"]), tree(3, 3, 0, 3, ["thorough"]), tree(1, 2, 0, 2, ["quick", "thorough"]), tree(1, 3, 0, 2, ["quick", "thorough"]), tree(1, 4, 0, 2, ["quick", "thorough"]), tree(1, 5, 0, 2, ["thorough"], 1200),
                tree(1, 4, 0, 3, ["thorough"], 1200)]
# numbering_structure_only (MODE 2 of the harness) is not registered: CBMC encodes the tree_node_t union through byte operators, the
# child pointers stop being constants and the recursion of alloc_inode_num_dfs explodes (no verdict in 300 s even for 5 nodes) - see DESIGN.md
OBLIGATIONS.append(dict(name="hard_link_primary", harness="harness/C11_hardlink.c", sources=["lib/sqfs/src/misc.c"], included_sources=["lib/sqfs/src/io/dir_hl.c"],
    defines={"strdup": "vp_strdup"}, unwind=4, tiers=["quick", "thorough"], timeout=200, reach=["end"],
    fp_map={"next": ["next", "src_next"], "read_link": ["read_link"], "key_compare": ["compare_inum"]},
    functions=["next, detect_hard_link, store_hard_link, read_link, sqfs_hard_link_filter_create (lib/sqfs/src/io/dir_hl.c)"],
    bound="two directory entries with the same (dev, inode), 1-byte symbolic names, delivered in a symbolic order"))

ASSUMPTIONS = ["rbtree replaced by a 2-slot map with insert/lookup semantics in the hard-link obligation (mem_pool/mmap based allocator outside)", "nodes are typed static objects (mknode's allocation is C13's subject)", "duplicate names are rejected before insertion (fstree_add_generic, EEXIST)"]
OUTSIDE = ["real readdir / glob on a host directory", "trees deeper than 2 levels or wider than 4 (the functions are structurally recursive over the sorted lists)"]
META = dict(
    text="Bounded model checking of the real insertion and numbering code: for every set of sibling names and every insertion order (names are unconstrained symbols), the child "
         "lists end up strictly sorted - hence unique - and inode numbers, the inode table and the file data order are a function of the sorted tree only.",
    note="Trusted: static node layout; <= 4 siblings, names <= 3 bytes; hard-link primary selection is a recorded finding, see known_findings.txt.",
    design_ref="DESIGN.md §4 C11",
    technique="CBMC bounded symbolic execution of real fstree.c/post_process.c with symbolic names (covers all insertion orders), SAT",
)
META["text"] += ' child_by_name() is proved to match exactly the queried component.'
