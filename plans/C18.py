"""C18: path canonicalisation / file-name sanity, all strings up to N bytes."""

def _canon(n, tiers, timeout, backend=None):
    return dict(
        name="canon_all_strings_len%d" % n,
        harness="harness/C18_canon.c",
        sources=["lib/util/src/canonicalize_name.c"],
        defines={"N": n},
        unwind=n + 3,
        tiers=tiers,
        timeout=timeout,
        backend=backend,
        weight=n,
        reach=["accepted", "refused"],
        functions=["canonicalize_name", "normalize_slashes (lib/util/src/canonicalize_name.c)"],
        bound="every NUL-terminated string held in a %d-byte buffer, all 256 byte values per position "
              "(shorter strings included via embedded NUL); loops unwound %d times with unwinding assertions" % (n + 1, n + 3),
    )

def _sane(n, w32, tiers):
    return dict(
        name="filename_sane_len%d%s" % (n, "_w32" if w32 else ""),
        harness="harness/C18_sane.c",
        sources=["lib/util/src/filename_sane.c"],
        defines=dict(N=n, **({"TEST_WIN32": 1} if w32 else {})),
        unwind=n + 3,
        unwindset={"is_allowed_by_os.0": 24} if w32 else {},
        tiers=tiers,
        timeout=300,
        reach=["sane", "insane"],
        functions=["is_filename_sane (lib/util/src/filename_sane.c)" + (" [TEST_WIN32 build]" if w32 else "")],
        bound="every NUL-terminated string in a %d-byte buffer, all byte values, check_os_specific symbolic" % (n + 1),
    )

OBLIGATIONS = [
    _canon(3, ["quick"], 120),
    _canon(5, ["quick", "thorough"], 600),
    _canon(6, ["thorough"], 1200),
    _canon(7, ["thorough"], 3000),
    _sane(4, False, ["quick", "thorough"]),
    _sane(8, False, ["thorough"]),
    _sane(5, True, ["quick", "thorough"]),
]

ASSUMPTIONS = [
    "specification of canonicalisation is the component scanner in harness/C18_canon.c (trusted, 35 lines)",
    "cbmc 6.11.0 C semantics, char is signed 8 bit (x86_64)",
]
OUTSIDE = [
    "strings longer than the stated N (quick 5, thorough 7)",
    "that every tool funnels names through these two functions is covered by the caller harnesses of C04/C06/C07/C16, not here",
]

META = dict(
    text="Bounded-exhaustive symbolic check: CBMC decides, for every string that fits the bound (all 256 byte "
         "values in every position), that the real canonicalize_name()/is_filename_sane() agree with an independent "
         "component-wise specification, never grow the string and are idempotent, with memory-safety checks on. "
         "Within the length bound this is a universal statement, not a sample.",
    note="Trusted: cbmc 6.11 + SAT back end; the 35-line spec in the harness; strings longer than the bound (quick 5 / thorough 7 bytes) are outside the claim.",
    design_ref="DESIGN.md §4 C18",
    technique="bounded symbolic execution of the real C code with CBMC (SAT), differential against an in-harness specification",
)
