"""C04: tar <-> SquashFS conversion: per-record facts."""
OBLIGATIONS = []
def num(mode, w, tiers, be=None, timeout=300):
    return dict(name="tar_number_%s_w%d%s" % ({1: "roundtrip", 2: "untrusted"}[mode], w, ("_" + be) if be else ""), harness="harness/C04_number.c",
        sources=["lib/tar/src/number.c", "lib/tar/src/checksum.c"], included_sources=["lib/tar/src/write_header.c"], incdirs=["lib/tar/src"], stubs=["stubs/vp_ctype.c"],
        defines=dict(MODE=mode, W=w), unwind=26, tiers=tiers, timeout=timeout, backend=be,
        reach=(["octal", "base256"] + (["negative"] if w == 12 else [])) if mode == 1 else (["accepted", "overflow_rejected"] if w == 12 else ["accepted"]),
        functions=["write_number, write_binary, write_number_signed (lib/tar/src/write_header.c)", "read_number, read_octal, read_binary (lib/tar/src/number.c)"],
        bound=("every 64 bit value (signed and unsigned), field width 12" if w == 12 else "every 32 bit value (mode/uid/gid/device fields), field width 8") if mode == 1 else "every byte content of a %d byte field" % w)
OBLIGATIONS += [num(1, 12, ["quick", "thorough"]), num(1, 8, ["quick", "thorough"]), num(2, 12, ["quick", "thorough"]), num(2, 8, ["quick", "thorough"])]
ASSUMPTIONS = ["sprintf with the %0*lo format is modelled by a small octal formatter (trusted)"]
OUTSIDE = ["tool-level byte fixpoint tar2sqfs -> sqfs2tar -> tar2sqfs, independent tar implementations"]
META = dict(
    text="Bounded model checking of the tar record encoders/decoders of the real code composed in one query: for all field values the writer output is read back identically, "
         "and the readers are memory safe on arbitrary record bytes.",
    note="Trusted: sprintf model, stream stubs. Whole-tool conversions outside.",
    design_ref="DESIGN.md §4 C04",
    technique="CBMC bounded symbolic execution of real tar encoder+decoder composed (round trip), SAT",
)
