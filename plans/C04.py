"""C04: tar <-> SquashFS conversion: per-record facts."""
OBLIGATIONS = []
def num(mode, w, tiers, be=None, timeout=300):
    return dict(name="tar_number_%s_w%d%s" % ({1: "roundtrip", 2: "untrusted"}[mode], w, ("_" + be) if be else ""), harness="harness/C04_number.c",
        sources=["lib/tar/src/number.c", "lib/tar/src/checksum.c"], included_sources=["lib/tar/src/write_header.c"], incdirs=["lib/tar/src"], stubs=["stubs/vp_ctype.c"],
        defines=dict(MODE=mode, W=w), unwind=26, tiers=tiers, timeout=timeout, backend=be,
        reach=(["octal", "base256"] + (["negative"] if w == 12 else [])) if mode == 1 else (["accepted", "overflow_rejected"] if w == 12 else ["accepted"]),
        functions=["write_number, write_binary, write_number_signed (lib/tar/src/write_header.c)", "read_number, read_octal, read_binary (lib/tar/src/number.c)"],
        bound=("every 64 bit value (signed and unsigned), field width 12" if w == 12 else "every 32 bit value (mode/uid/gid/device fields), field width 8") if mode == 1 else "every byte content of a %d byte field" % w)
OBLIGATIONS += [num(1, 12, ["quick", "thorough"]), num(1, 8, ["quick", "thorough"]), num(2, 12, ["quick", "thorough"]), num(2, 8, ["quick", "thorough"])]
def hdr(t, tiers):
    nm = ["file", "dir", "symlink", "chrdev", "blkdev", "fifo"][t]
    return dict(name="tar_header_roundtrip_%s" % nm, harness="harness/C04_header.c", sources=["lib/tar/src/number.c", "lib/util/src/is_memory_zero.c"],
        stubs=["stubs/vp_ctype.c", "stubs/vp_sysmacros.c"], included_sources=["lib/tar/src/write_header.c", "lib/tar/src/read_header.c"], incdirs=["lib/tar/src"],
        pre_include=["stubs/vp_alloc_sizes.h"], defines=dict(VP_ALLOC_SIZES="2,3,101", T=t), unwind=26, unwindset={"tar_compute_checksum.0": 150, "tar_compute_checksum.1": 10, "tar_compute_checksum.2": 360,
        "strncpy.0": 101, "strndup.0": 102, "strndup.1": 101, "strnlen.0": 160, "memcmp.0": 10, "vp_malloc.0": 5, "vp_calloc.0": 5},
        tiers=tiers, timeout=300, fp_map={"append": ["cap_append"]}, reach=["decoded"],
        functions=["write_tar_header, write_header, update_checksum (lib/tar/src/write_header.c)", "is_checksum_valid, check_version, decode_header (lib/tar/src/read_header.c)", "read_number", "tar_compute_checksum"],
        bound="one %s entry with symbolic uid, gid, mtime (64 bit signed), permission bits, size (64 bit), device numbers; short concrete name/target" % nm)
OBLIGATIONS += [hdr(t, ["quick", "thorough"]) for t in range(6)]  # not registered: see DESIGN 0A.3
OBLIGATIONS.append(dict(name="tar_checksum_ignores_own_field", harness="harness/C04_header.c", sources=["lib/tar/src/number.c", "lib/tar/src/checksum.c", "lib/util/src/is_memory_zero.c"],
    stubs=["stubs/vp_ctype.c", "stubs/vp_sysmacros.c"], incdirs=["lib/tar/src"], pre_include=["stubs/vp_alloc_sizes.h"], defines=dict(VP_ALLOC_SIZES="2,3,101", MODE=2), unwind=514,
    tiers=["quick", "thorough"], timeout=200, reach=["computed"], functions=["tar_compute_checksum (lib/tar/src/checksum.c)"],
    bound="records whose bytes 0..3, 144..159 (the checksum field 148..155 and 4 bytes on either side) and 508..511 are symbolic and whose other bytes are zero; the checksum field is then overwritten with 8 arbitrary bytes"))

def longname(nl, tl, tiers):
    return dict(name="tar_long_name_n%d_t%d" % (nl, tl), harness="harness/C04_longname.c", sources=[], stubs=["stubs/vp_ctype.c", "stubs/vp_sysmacros.c"],
        included_sources=["lib/tar/src/write_header.c"], incdirs=["lib/tar/src"], defines=dict(NAMELEN=nl, TLEN=tl), unwind=max(nl, tl) + 4,
        unwindset={"memset.0": 513, "put_oct.0": 23, "vp_sprintf.0": 13, "oct.0": 13, "write_number.0": 13, "write_binary.0": 13}, tiers=tiers, timeout=300,
        fp_map={"append": ["cap_append"]}, reach=["short_name" if nl < 100 else "long_name"] + ([("short_target" if tl < 100 else "long_target")] if tl else []),
        functions=["write_tar_header, write_header, write_ext_header (lib/tar/src/write_header.c)"],
        bound="name of exactly %d symbolic non-NUL bytes%s" % (nl, (", symlink target of exactly %d symbolic non-NUL bytes" % tl) if tl else ""))
OBLIGATIONS.append(dict(longname(100, 0, ["quick", "thorough"]), name="tar_unsupported_entry_leaves_no_record", defines=dict(NAMELEN=100, TLEN=0, SOCKET=1), reach=["refused"],
    bound="a socket entry with a name of exactly 100 symbolic bytes"))
OBLIGATIONS += [longname(99, 0, ["quick", "thorough"]), longname(100, 0, ["quick", "thorough"]), longname(101, 0, ["thorough"]), longname(3, 99, ["thorough"]), longname(3, 100, ["quick", "thorough"])]

OBLIGATIONS.append(dict(name="tar_iterator_record_accounting", harness="harness/C04_iterator.c", sources=[], included_sources=["lib/tar/src/iterator.c"],
    incdirs=["lib/tar/src"], unwind=6, tiers=["quick", "thorough"], timeout=300,
    fp_map={"get_buffered_data": ["base_get"], "advance_buffer": ["base_adv"], "destroy": ["base_destroy", "it_destroy"]},
    reach=["member_read", "next_entry", "io_error"],
    functions=["it_next, it_open_file_ro, strm_get_buffered_data, strm_advance_buffer, strm_destroy, drop_parent, is_sparse_region (lib/tar/src/iterator.c)"],
    bound="two consecutive members, record size any value < 2^62, the consumer reads any prefix of the member in <= 2 chunks or nothing; the archive stream hands out 1..8 bytes per call and may fail"))

OBLIGATIONS.append(dict(name="tar_iterator_sparse_member", harness="harness/C04_iterator.c", sources=[], included_sources=["lib/tar/src/iterator.c"],
    incdirs=["lib/tar/src"], defines=dict(SPARSE=1, FSMAX=10), unwind=14, tiers=["quick", "thorough"] if "C04" == "C04" else ["thorough"], timeout=600,
    fp_map={"get_buffered_data": ["base_get"], "advance_buffer": ["base_adv"], "destroy": ["base_destroy", "it_destroy"]},
    reach=["sparse_member", "io_error"],
    functions=["strm_get_buffered_data, strm_advance_buffer, is_sparse_region, it_open_file_ro (lib/tar/src/iterator.c)"],
    bound="one sparse member: real size <= 10, one mapped data region of symbolic offset and length, the archive hands out 1..8 bytes per call and may fail"))

ASSUMPTIONS = ["sprintf is modelled for the formats used (%0*lo, %06o as an octal formatter that also asserts the value fits the field; %lu writes a placeholder digit: uname/gname are never decoded)", "in the composed header query tar_compute_checksum is abstracted to one arbitrary value <= 512*255 per record; justified by the obligation tar_checksum_ignores_own_field (real function) and the arithmetic range of a 512-term byte sum"]
OUTSIDE = ["tool-level byte fixpoint tar2sqfs -> sqfs2tar -> tar2sqfs, independent tar implementations"]
META = dict(
    text="Bounded model checking of the tar record encoders/decoders of the real code composed in one query: for all field values the writer output is read back identically, "
         "and the readers are memory safe on arbitrary record bytes.",
    note="Trusted: sprintf model, stream stubs. Whole-tool conversions outside.",
    design_ref="DESIGN.md §4 C04",
    technique="CBMC bounded symbolic execution of real tar encoder+decoder composed (round trip), SAT",
)
META["text"] += ' Also decided: whole header records of six entry types round trip, long names and targets travel in GNU long records, the tar iterator finds every next header whatever part of a member was consumed and delivers sparse members with their real size.'
