"""C09: worker pool - induction over critical sections of the real threadpool.c"""
import itertools

SRC = ["lib/util/src/alloc.c"]
FUN = ["submit", "dequeue", "try_dequeue_done", "store_completed", "get_next_work_item", "worker_proc",
       "get_status", "destroy", "free_item_list", "thread_pool_create (lib/util/src/threadpool.c, #included)"]
STEPS = {1: "submit", 2: "dequeue", 3: "worker_take", 4: "status", 5: "destroy", 6: "create", 7: "worker_store"}

def obl(step, q, d, h, s, r, tiers):
    if step == 1:
        reach = ["submit_ok", "submit_refused"]
    elif step == 2:
        if q + d + h + s == 0:
            reach = ["dequeue_empty"]
        elif s >= 1 or d >= 1:
            reach = ["dequeue_item"]
        else:
            reach = []
        if s == 0 and h >= 1:
            reach.append("wait")
        if s == 0 and d == 0 and h == 0 and q >= 1:
            reach += ["wait", "dequeue_after_failure"]
    elif step == 3:
        reach = ["worker_exit", "worker_took_item" if q >= 1 else "wait"]
    elif step == 7:
        reach = ["worker_exit", "worker_stored_and_took_next" if q >= 1 else "wait"]
    else:
        reach = {4: ["status"], 5: ["destroyed"], 6: ["create_ok", "create_failed"]}[step]
    return dict(
        name="%s_q%d_d%d_h%d_s%d_r%d" % (STEPS[step], q, d, h, s, r),
        harness="harness/C09_pool.c",
        sources=SRC,
        included_sources=["lib/util/src/threadpool.c"],
        defines=dict(STEP=step, QN=q, DN=d, HN=h, SN=s, RN=r),
        unwind=max(q + 1, d + 1, s + d + 1, r + 2, 3) + 1,
        tiers=tiers,
        timeout=300, timeout_thorough=2400, backend=("cadical" if step == 2 else None),
        leak=step in (5, 6),
        instrument=[["--restrict-function-pointer", "worker_proc.function_pointer_call.1/callback"]] if step in (3, 7) else [],
        reach=reach,
        functions=FUN,
        bound="one critical section from an arbitrary invariant state with %d queued, %d done, %d held by workers, "
              "%d safe_done, %d recycled cells; tickets, payload pointers and status word fully symbolic" % (q, d, h, s, r),
    )

OBLIGATIONS = []
def add(step, shapes, tiers):
    for (q, d, h, s, r) in shapes:
        OBLIGATIONS.append(obl(step, q, d, h, s, r, tiers))

quick_shapes = [(0,0,0,0,0), (1,0,0,0,1), (1,0,1,0,0), (0,1,1,0,1), (1,1,1,0,1), (2,2,1,1,1), (1,2,2,0,0), (0,2,0,1,0), (2,0,2,0,1)]
full = [(q,d,h,s,r) for q in range(3) for d in range(3) for h in range(3) for s in range(2) for r in range(2)]
rest = [x for x in full if x not in quick_shapes]

for st in (1, 2):
    add(st, quick_shapes, ["quick", "thorough"])
    add(st, rest, ["thorough"])
add(3, quick_shapes, ["quick", "thorough"])
add(3, rest, ["thorough"])
# worker second section: its item is among the held ones (h>=1)
wq = [x for x in quick_shapes if x[2] >= 1] + [(0,0,1,0,0), (2,1,1,0,0)]
add(7, wq, ["quick", "thorough"])
add(7, [x for x in full if x[2] >= 1 and x not in wq], ["thorough"])
add(4, [(1,1,1,0,1)], ["quick", "thorough"])
add(5, [(0,0,0,0,0), (2,2,0,1,1), (1,0,0,0,1)], ["quick", "thorough"])
add(6, [(0,0,0,0,0)], ["quick", "thorough"])

ASSUMPTIONS = [
    "pthread mutex provides mutual exclusion; condition variables are Mesa-style (waits re-check in a loop); modelled by a sequential monitor shim (harness/C09_pool.c)",
    "shared pool fields are only accessed under the mutex except the main-thread-only lists (recycle, safe_done, item_count) - by inspection of threadpool.c",
    "representation invariant Inv and progress predicate are hand-written in the harness (trusted); every step is started from an arbitrary Inv state and must re-establish Inv",
    "the OS scheduler is fair: a worker that holds an item or is enabled eventually runs",
]
OUTSIDE = [
    "more than 2 queued / 2 done / 2 held / 1 safe_done / 1 recycled cell per shape (the code is uniform in list length)",
    "real pthread primitives, memory ordering, data races on work-item payload",
    "CBMC's own thread interleaving model (rejects this code: shared linked lists)",
]
META = dict(
    text="Inductive-step model checking of the real threadpool.c: each critical section (submit, dequeue, worker take/store, "
         "get_status, destroy, create) is symbolically executed by CBMC from an arbitrary state satisfying the representation "
         "invariant (all tickets/pointers/status symbolic, list shapes enumerated) and must re-establish the invariant, hand out "
         "work in FIFO/ticket order, keep failure status sticky, signal on change, and may reach pthread_cond_wait only when "
         "another thread can still satisfy the awaited condition (deadlock freedom incl. after a worker failure). Because every "
         "step starts from any invariant state, the verdict covers all interleavings at mutex granularity and histories of any "
         "length for the bounded number of cells.",
    note="Trusted: the sequential monitor model of pthreads, the hand-written invariant/progress predicate, scheduler fairness; list shapes <= 2/2/2/1/1 cells. Real scheduling/data races outside.",
    design_ref="DESIGN.md §4 C09",
    technique="CBMC bounded symbolic execution of real threadpool.c, induction over critical sections from symbolic invariant states",
)
