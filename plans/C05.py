"""C05: readers on untrusted images - memory safety + termination, layered."""
FP = {'read_at': ['vp_file_read_at'], 'write_at': ['vp_file_write_at'], 'do_block': ['vp_cmp_do_block'],
      'get_buffered_data': ['dr_stream_get_buffered_data'], 'advance_buffer': ['dr_stream_advance_buffer']}
OBLIGATIONS = []

OBLIGATIONS.append(dict(
    name="super_read_any_96_bytes", harness="harness/C05_super.c", sources=["lib/sqfs/src/read_super.c"],
    unwind=102, unwindset={"sqfs_super_read.0": 22}, timeout=300, fp_map=FP, reach=["accepted", "rejected"],
    functions=["sqfs_super_read (lib/sqfs/src/read_super.c)"],
    bound="every file of <= 100 bytes with unconstrained content (all 96 superblock bytes symbolic)"))

def meta(name, meta_sz, img, rd, tiers, timeout=300):
    return dict(name=name, harness="harness/C05_meta.c", sources=["lib/sqfs/src/meta_reader.c"], pre_include=["stubs/vp_pre_meta.h"],
        defines=dict(MODE=1, VP_META=meta_sz, VP_IMG=img, RD=rd, VP_CMP_MAXOUT=meta_sz, VP_MAXIO=meta_sz), unwind=img + 2,
        unwindset={"sqfs_meta_reader_read.0": rd + 1, "vp_cmp_do_block.0": meta_sz + 1, "vp_cmp_init.0": 5, "vp_cmp_init.1": 5,
                   "harness.0": rd + 1, "vp_file_read_at.0": meta_sz + 1},
        termination=True, tiers=tiers, timeout=timeout, fp_map=FP, reach=["read_ok", "read_fail", "seek_fail"],
        functions=["sqfs_meta_reader_create", "sqfs_meta_reader_seek", "sqfs_meta_reader_read", "sqfs_meta_reader_get_position (lib/sqfs/src/meta_reader.c)"],
        bound="every image of <= %d bytes, metadata block size scaled to %d, arbitrary [start,limit) window, seek to any (block, offset) "
              "then read of <= %d bytes (read loop unwound %d times with unwinding assertion = termination); compressor = arbitrary "
              "deterministic function with result <= outsize" % (img, meta_sz, rd, rd + 1))
OBLIGATIONS.append(meta("meta_seek_read_m4_img16", 4, 16, 3, ["quick", "thorough"]))
OBLIGATIONS.append(meta("meta_seek_read_m8_img24", 8, 24, 5, ["thorough"], 900))

DATA_SRC = ["lib/sqfs/src/inode.c", "lib/util/src/alloc.c"]
DATA_FUN = {1: "sqfs_data_reader_get_block, get_block", 2: "sqfs_data_reader_get_fragment, precache_fragment_block, get_block",
            3: "sqfs_data_reader_read, precache_data_block, precache_fragment_block, get_block",
            4: "dr_stream_get_buffered_data, dr_stream_advance_buffer, precache_fragment_block",
            7: "sqfs_data_reader_create_stream"}
DATA_REACH = {1: ["ok", "err"], 2: ["ok", "err"], 3: ["ok", "eof", "err"], 4: ["eof", "err"], 7: ["created"]}
def data(mode, nw, tiers, bs=4, img=12, rd=6):
    reach = list(DATA_REACH[mode])
    if mode == 1 and nw == 0:
        reach = ["err"]
    return dict(name="data_%s_w%d_bs%d" % ({1: "get_block", 2: "get_fragment", 3: "read", 4: "stream", 7: "create_stream"}[mode], nw, bs),
        harness="harness/C05_data.c", sources=DATA_SRC, included_sources=["lib/sqfs/src/data_reader.c"],
        defines=dict(MODE=mode, BS=bs, NW=nw, NFRAG=2, VP_IMG=img, VP_MAXIO=bs, VP_CMP_MAXOUT=bs, RD=rd), unwind=max(8, rd + 2),
        unwindset={"vp_cmp_init.0": 5, "vp_cmp_init.1": 5, "vp_img_symbolic.0": img + 1},
        termination=True, tiers=tiers, timeout=300, fp_map=FP, reach=reach,
        functions=[DATA_FUN[mode] + " (lib/sqfs/src/data_reader.c)"],
        bound="arbitrary regular-file inode (basic or extended, every field symbolic, %d block-size words, file size < 2^48), arbitrary image "
              "<= %d bytes, 2 arbitrary fragment table entries, block size %d, request offset/length arbitrary (length <= %d)" % (nw, img, bs, rd))
for mode in (1, 2, 3, 4, 7):
    for nw in (0, 1, 2):
        if mode == 7 and nw != 1:
            continue
        OBLIGATIONS.append(data(mode, nw, ["quick", "thorough"]))
for mode in (3, 4):
    OBLIGATIONS.append(data(mode, 3, ["thorough"], bs=4, img=16, rd=8))
    OBLIGATIONS.append(data(mode, 2, ["thorough"], bs=8, img=20, rd=10))

INO_NAMES = {1: "dir", 2: "file", 3: "slink", 4: "bdev", 5: "cdev", 6: "fifo", 7: "socket", 8: "ext_dir", 9: "ext_file", 10: "ext_slink",
             11: "ext_bdev", 12: "ext_cdev", 13: "ext_fifo", 14: "ext_socket", 15: "invalid_type"}
def inode(t, sizes, maxrd, calls, tiers, timeout=300, extra=None):
    reach = {1: ["dir"], 2: ["file"], 3: ["slink"], 8: ["dir_ext"], 9: ["file"], 10: ["slink"], 15: ["error"]}.get(t, ["other"])
    return dict(name="inode_%s" % INO_NAMES[t], harness="harness/C05_inode.c",
        sources=["lib/sqfs/src/read_inode.c", "lib/sqfs/src/inode.c", "lib/util/src/alloc.c"],
        pre_include=["stubs/vp_alloc_sizes.h"],
        defines=dict(dict(VP_ALLOC_SIZES=sizes, VP_META_MAXRD=maxrd, VP_META_MAXCALLS=calls, VP_META_FORCE_U16=t), **(extra or {})), unwind=8,
        termination=True, tiers=tiers, timeout=timeout, mem_gb=40, reach=reach + (["error"] if "error" not in reach else []),
        functions=["sqfs_meta_reader_read_inode, read_inode_file, read_inode_file_ext, read_inode_slink, read_inode_slink_ext, read_inode_dir_ext, set_mode, "
                   "get_block_count (lib/sqfs/src/read_inode.c)", "sqfs_inode_unpack_dir_index_entry, sqfs_inode_get_file_size, "
                   "sqfs_inode_get_frag_location (lib/sqfs/src/inode.c)", "alloc_flex (lib/util/src/alloc.c)"],
        bound="inode type %s; every metadata byte delivered to the reader is unconstrained (any read may also fail); allocations succeed only "
              "for total sizes {%s} bytes (i.e. the explored payload sizes), any other size fails with NULL; any legal block size 4K..1M" % (INO_NAMES[t], sizes))
OBLIGATIONS += [
    inode(1, "64", 16, 2, ["quick", "thorough"]),
    inode(2, "64,68,72", 16, 3, ["quick", "thorough"]),
    inode(3, "65,66,68", 16, 4, ["quick", "thorough"]),
    inode(10, "65,66,68", 16, 5, ["quick", "thorough"]),
    inode(4, "64", 16, 2, ["quick", "thorough"]),
    inode(6, "64", 16, 2, ["quick", "thorough"]),
    inode(11, "64", 16, 2, ["quick", "thorough"]),
    inode(13, "64", 16, 2, ["quick", "thorough"]),
    inode(15, "64", 16, 2, ["quick", "thorough"]),
    inode(9, "64,68,72", 40, 3, ["quick", "thorough"], 600),
    dict(inode(8, "64,192,320", 24, 5, ["quick", "thorough"], 600), unwindset={"read_inode_dir_ext.0": 28}),
    dict(inode(8, "64,192,320", 128, 6, ["thorough"], 900, extra=dict(VP_META_EXTDIR_ENTSIZE_BASE=48, VP_META_NOFILL_ABOVE=40)), name="inode_ext_dir_two_entries_growth"),
    dict(inode(8, "192", 128, 4, ["quick", "thorough"], 300, extra=dict(VP_META_EXTDIR_ENTSIZE_BASE=112, VP_META_NOFILL_ABOVE=40, VP_NO_UNPACK=1)), name="inode_ext_dir_growth_boundary"),
    dict(inode(8, "64,192,320", 128, 4, ["thorough"], 600, extra=dict(VP_META_EXTDIR_ENTSIZE_BASE=112, VP_META_NOFILL_ABOVE=40)), name="inode_ext_dir_growth_boundary_unpack"),
]

OBLIGATIONS.append(dict(name="readdir_arbitrary_listing", harness="harness/C05_readdir.c", sources=["lib/sqfs/src/readdir.c"], pre_include=["stubs/vp_alloc_sizes.h"],
    defines=dict(K=3, VP_ALLOC_SIZES="10,11,12", VP_META_MAXRD=12, VP_META_MAXCALLS=9), unwind=6, termination=True, tiers=["quick", "thorough"], timeout=300,
    reach=["eof", "error", "entry"],
    functions=["sqfs_readdir_state_init, sqfs_meta_reader_readdir, sqfs_meta_reader_read_dir_header, sqfs_meta_reader_read_dir_ent (lib/sqfs/src/readdir.c)"],
    bound="arbitrary directory inode (basic/extended), 3 consecutive readdir calls, every metadata byte unconstrained, names of 1..3 bytes (larger allocations fail)"))

OBLIGATIONS.append(dict(name="tree_reader_loop_test", harness="harness/C05_loopcheck.c", sources=[], included_sources=["lib/common/src/read_tree.c"],
    defines=dict(DEPTH=3), unwind=6, backend="cadical", tiers=["quick", "thorough"], timeout=200, reach=["loop", "no_loop"],
    functions=["would_be_own_parent (lib/common/src/read_tree.c)"],
    bound="ancestor chain of 0..3 nodes, every inode type / number / mode symbolic"))
# harness/C05_tree.c (fill_dir over a symbolic inode graph) is kept but not registered: no verdict within 400 s even for 2 inodes (recursion inside two loops)

# not registered: inode_ext_dir_index_growth_boundary (read_inode_dir_ext with one index entry whose name length is 112..119, i.e. around the 128 byte growth
# boundary; needs reads of ~117 unconstrained bytes into realloc()ed byte-array objects) - no verdict in 900 s / 40 GB. The seeded change C05_1 (off-by-one in that growth
# test) is therefore NOT caught; see DESIGN.md 0A.7.

ASSUMPTIONS = [
    "file stub: read_at copies the available prefix and fails with OUT_OF_BOUNDS past the end (behaviour of the pread loop in io/file.c)",
    "compressor stub: arbitrary deterministic function of (first input byte & 3, size & 3, last byte); returns <0 or 0..outsize (documented do_block contract); real codec libraries outside",
    "metadata block size scaled from 8192 to 4/8 via pre-include (code is generic in SQFS_META_BLOCK_SIZE)",
    "layers above the metadata reader run on a contract stub whose reads return unconstrained bytes (superset of all images)",
    "allocation stub: only the listed constant sizes succeed (CBMC cannot encode heap objects of symbolic size within reach)",
    "data reader/stream objects are laid out as typed static objects with the field values their constructors establish (checked for the stream by obligation data_create_stream)",
    "file sizes/offsets < 2^48 (CBMC pointer offset width with --object-bits 12)",
]
OUTSIDE = [
    "decompressor libraries on hostile data", "rdsquashfs/sqfs2tar/sqfsdiff main functions and option handling",
    "images > 24 bytes at the metadata layer, > 3 block words per inode, directory readers/xattr reader/tree reader not yet harnessed in this plan are listed in DESIGN.md",
]
META = dict(
    text="Bounded model checking of the real reader code on unconstrained input: for every image/metadata byte sequence within the bound CBMC proves "
         "absence of out-of-bounds reads/writes, NULL/dangling dereferences, division by zero, signed overflow, and termination of every loop within "
         "its unwinding bound (unwinding assertions). Inputs are not sampled: the image bytes, inode fields, table entries, offsets and lengths are "
         "symbolic. Layering uses contract stubs so that each layer is verified for a superset of what the layer below can deliver.",
    note="Trusted: stubs listed in evidence.assumptions (file, compressor, metadata-reader contract, allocation sizes), scaled constants, cbmc. Codec libraries, tool main()s and larger sizes outside.",
    design_ref="DESIGN.md §4 C05",
    technique="CBMC bounded symbolic execution of real reader code over fully symbolic images (SAT), memory-safety + unwinding assertions",
)
META["text"] += " Every inode type incl. the extended directory index (growth boundary, termination of the doubling loop) and 'a failed stream stays failed' are decided."
