"""C14: a killed packer never leaves a file that reads as a complete image."""
FP = {'read_at': ['vp_file_read_at'], 'write_at': ['vp_file_write_at'], 'get_size': ['vp_file_get_size'], 'truncate': ['vp_file_truncate'],
      'destroy': ['id_table_destroy'], 'do_block': ['vp_cmp_do_block']}
OBLIGATIONS = [
    dict(name="provisional_super_rejected", harness="harness/C14_super.c",
         sources=["lib/sqfs/src/super.c", "lib/sqfs/src/write_super.c", "lib/sqfs/src/read_super.c", "lib/sqfs/src/id_table.c", "lib/util/src/array.c"],
         unwind=106, unwindset={"sqfs_super_init.0": 22, "sqfs_super_read.0": 22}, timeout=300, fp_map=FP, reach=["end"],
         functions=["sqfs_super_init (super.c)", "sqfs_super_write (write_super.c)", "sqfs_super_read (read_super.c)", "sqfs_id_table_read entry check (id_table.c)"],
         bound="all 9 legal block sizes, any mtime, any compressor id, compressor-options flag on/off, any <= 8 bytes appended after the superblock"),
    dict(name="finish_commit_order", harness="harness/C14_finish.c",
         sources=["lib/common/src/writer/finish.c", "lib/sqfs/src/write_super.c", "lib/sqfs/src/super.c"],
         unwind=18, unwindset={"sqfs_super_init.0": 22, "vp_file_write_at.0": 97}, timeout=400, fp_map=FP, reach=["finished", "failed"],
         functions=["sqfs_writer_finish, padd_sqfs (lib/common/src/writer/finish.c)", "sqfs_super_write (write_super.c)"],
         bound="every sub-writer performs 0..2 appends and may fail (symbolic), exportable/no_xattr symbolic, device block size in {4,8,16} (scaled), file size before finish 96..100"),
]
def tbl(kind, tiers):
    nm = {1: "id_table", 2: "frag_table"}[kind]
    return dict(name="%s_write_appends_only" % nm, harness="harness/C14_tables.c",
        sources=["lib/sqfs/src/%s.c" % nm, "lib/sqfs/src/write_table.c", "lib/sqfs/src/meta_writer.c", "lib/sqfs/src/super.c", "lib/util/src/array.c", "lib/util/src/alloc.c"],
        pre_include=["stubs/vp_pre_meta.h"], defines=dict(KIND=kind, NENT=2, VP_META=16, VP_CMP_MAXOUT=16), unwind=26,
        unwindset={"vp_cmp_init.0": 5, "vp_cmp_init.1": 5, "sqfs_super_init.0": 22, "vp_file_write_at.0": 25, "sqfs_id_table_write.0": 4, "sqfs_id_table_write.1": 4,
                   "sqfs_frag_table_write.0": 4, "sqfs_write_table.0": 3, "sqfs_meta_writer_append.0": 4, "sqfs_id_table_id_to_index.0": 4}, tiers=tiers, timeout=400,
        fp_map={'read_at': ['vp_file_read_at'], 'write_at': ['vp_file_write_at'], 'get_size': ['vp_file_get_size'], 'do_block': ['nc_do_block'],
                'destroy': ['id_table_destroy', 'frag_table_destroy', 'meta_writer_destroy', 'vp_file_destroy', 'vp_cmp_destroy']},
        reach=["done"], functions=["sqfs_%s_write (lib/sqfs/src/%s.c)" % (nm, nm), "sqfs_write_table (write_table.c)", "sqfs_meta_writer_append/flush (meta_writer.c)"],
        bound="table with 2 symbolic entries, metadata block size scaled to 16, file size before the call 96..100")
OBLIGATIONS += [tbl(2, ["quick", "thorough"])]
# tbl(1, ...) (id table through the real write_table/meta writer) does not finish in 400 s; the id table writer is checked with sqfs_write_table stubbed instead:
OBLIGATIONS.append(dict(name="id_table_write_no_direct_file_write", harness="harness/C14_idwrite.c", sources=["lib/sqfs/src/super.c", "lib/util/src/array.c", "lib/util/src/alloc.c"],
    included_sources=["lib/sqfs/src/id_table.c"], unwind=24, unwindset={"sqfs_id_table_write.0": 4, "sqfs_id_table_write.1": 4}, tiers=["quick", "thorough"], timeout=300,
    fp_map={'write_at': ['vp_file_write_at'], 'get_size': ['vp_file_get_size'], 'truncate': ['vp_file_truncate']}, reach=["ok", "error_propagated"],
    functions=["sqfs_id_table_write (lib/sqfs/src/id_table.c)"], bound="table with two symbolic ids; sqfs_write_table stubbed (may fail)"))

ASSUMPTIONS = [
    "crash model: the process dies between two output system calls; a single write_at is atomic (the retry loop of C12 can split it - analysed by hand in DESIGN.md)",
    "sub-writers are modelled as append-only writers that set their superblock field like the real ones; append-only behaviour of the real meta writer / table writer / block writer is checked in C03/C08",
    "memfile write log (offset, length, file size before) is the observation",
]
OUTSIDE = ["torn single writes, file-system write-back reordering (no fsync before the final superblock)", "init.c ordering (provisional superblock first) is checked by reading: sqfs_super_write is the first call that touches the file"]
META = dict(
    text="Bounded model checking of the commit protocol: (1) for every legal parameter combination the provisional superblock produced by the real "
         "init/write code is rejected by the real reader code; (2) the real sqfs_writer_finish is run against nondeterministic sub-writers and a monitored "
         "file: in every execution the superblock bytes are written exactly once, after all content, with bytes_used equal to the file size at that moment, "
         "and never after a sub-writer failure. Crash points are thereby covered as prefixes of a write sequence whose shape is proven for all runs.",
    note="Trusted: crash = prefix of the write_at sequence; sub-writer stubs; hand argument for torn writes.",
    design_ref="DESIGN.md §4 C14",
    technique="CBMC bounded symbolic execution of real super/finish code with a monitored file stub and nondeterministic sub-writers, SAT",
)
