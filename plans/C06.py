"""C06: unpacking writes only inside the chosen directory."""
OBLIGATIONS = []
def rest(nl, tiers, timeout=600):
    sizes = ",".join(str(x) for x in range(1, 2 * nl + 4))
    return dict(name="restore_paths_nl%d" % nl, harness="harness/C06_restore.c",
        sources=["lib/common/src/dir_tree.c", "lib/util/src/canonicalize_name.c", "lib/util/src/filename_sane.c", "lib/sqfs/src/misc.c"],
        included_sources=["bin/rdsquashfs/src/restore_fstree.c"], incdirs=["bin/rdsquashfs/src"], pre_include=["stubs/vp_alloc_sizes.h"],
        defines=dict(NL=nl, VP_ALLOC_SIZES=sizes), unwind=2 * nl + 6, unwindset={"create_node_dfs": 4, "set_attribs": 4, "vp_malloc.0": 2 * nl + 5},
        tiers=tiers, timeout=timeout, reach=["insane_skipped", "created"],
        functions=["restore_fstree, create_node_dfs, create_node, update_tree_attribs, set_attribs (bin/rdsquashfs/src/restore_fstree.c)",
                   "sqfs_tree_node_get_path (lib/common/src/dir_tree.c)", "canonicalize_name", "is_filename_sane"],
        bound="tree root -> A -> B (B only if A is a directory); names of %d symbolic bytes each (all byte values incl. NUL, '/', '.'), all inode types, "
              "unpack flag word symbolic (chmod, chown, set-times, quiet, no-sparse)" % nl)
OBLIGATIONS += [rest(1, ["quick", "thorough"]), rest(2, ["quick", "thorough"]), rest(3, ["thorough"], 3000)]
def fill(nl, adir, tiers, timeout=600):
    sizes = ",".join(str(x) for x in sorted(set(list(range(1, 2 * nl + 4)) + [16])))
    return dict(name="unpack_data_paths_nl%d_%s" % (nl, "dir" if adir else "top"), harness="harness/C06_fill.c",
        sources=["lib/common/src/dir_tree.c", "lib/util/src/canonicalize_name.c", "lib/util/src/filename_sane.c", "lib/sqfs/src/misc.c", "lib/sqfs/src/inode.c"],
        included_sources=["bin/rdsquashfs/src/fill_files.c"], incdirs=["bin/rdsquashfs/src"], pre_include=["stubs/vp_alloc_sizes.h"],
        defines=dict(NL=nl, ADIR=adir, VP_ALLOC_SIZES=sizes, PRESET_CAP=1), unwind=2 * nl + 6, unwindset={"gen_file_list_dfs": 4, "vp_malloc.0": 2 * nl + 6, "vp_realloc.0": 2 * nl + 6, "fill_files.0": 3, "fill_files.1": 5, "clear_file_list.0": 3},
        leak=True, tiers=tiers, timeout=timeout, fp_map={"destroy": ["d_out", "d_in"], "flush": ["flush_stub"]}, reach=["not_opened", "unpacked", "failure"],
        functions=["fill_unpacked_files, gen_file_list_dfs, add_file, fill_files, clear_file_list (bin/rdsquashfs/src/fill_files.c)",
                   "sqfs_tree_node_get_path (lib/common/src/dir_tree.c)", "canonicalize_name", "is_filename_sane"],
        bound="tree root -> A%s; names of %d symbolic bytes each (all byte values incl. NUL, '/', '.'); open, stream creation, up to 3 splices and flush may fail" % (" (directory) -> B" if adir else "", nl))
OBLIGATIONS += [fill(1, 0, ["quick", "thorough"]), fill(1, 1, ["quick", "thorough"]), fill(2, 0, ["quick", "thorough"]), fill(2, 1, ["thorough"])]
OBLIGATIONS.append(dict(name="unpack_file_list_growth", harness="harness/C06_fill.c",
    sources=["lib/common/src/dir_tree.c", "lib/util/src/canonicalize_name.c", "lib/util/src/filename_sane.c", "lib/sqfs/src/misc.c", "lib/sqfs/src/inode.c"],
    included_sources=["bin/rdsquashfs/src/fill_files.c"], incdirs=["bin/rdsquashfs/src"], defines=dict(NL=1, ADIR=0, GROW=1), unwind=8, malloc_fail=True,
    leak=True, tiers=["quick", "thorough"], timeout=300, fp_map={"destroy": ["d_out", "d_in"], "flush": ["flush_stub"]}, reach=["grown", "alloc_failed"],
    functions=["add_file, clear_file_list (bin/rdsquashfs/src/fill_files.c)"], bound="first insertion into the empty list (256 slots), any allocation may fail"))
# harness/C06_treesort.c (tree_sort / list_sort duplicate rejection, C06 O-1) is kept but NOT registered: the recursive merge sort over a
# heap-linked list makes every list pointer symbolic after the first merge; probed shapes (2..3 entries, symbolic or concrete names, recursion
# bounds 2..3) produce 20k..200k VCCs and run out of memory or time (> 300 s).  The seeded change C06_b3_D1 is therefore not detected.
ASSUMPTIONS = ["kernel path resolution is outside; the obligation is on the strings and flags handed to the kernel", "system calls succeed (error paths belong to C13)",
               "xattr restore (lsetxattr) uses the same path variable as the other attribute calls (by inspection) and is not executed here"]
OUTSIDE = ["pre-existing symlinks inside the unpack root", "mkdir_p/chdir of the unpack root itself", "duplicate-name rejection (tree_sort) - see DESIGN.md", "Windows paths"]
META = dict(
    text="Bounded model checking of the real unpack code with recording system-call stubs: for every pair of entry names of the stated length over the full byte range, every "
         "inode type and every unpack flag combination, each path that reaches mkdir/symlink/mknod/open/utimensat/fchownat/fchmodat is relative, free of empty, '.' and '..' "
         "components and equals the entry's ancestor chain; insane names produce no call at all; O_EXCL / AT_SYMLINK_NOFOLLOW / no chmod on symlinks hold.",
    note="Trusted: syscall recording stubs; tree depth 2, names <= 3 bytes.",
    design_ref="DESIGN.md §4 C06",
    technique="CBMC bounded symbolic execution of real restore_fstree.c + path helpers with recording syscall stubs over all names, SAT",
)
META["text"] += ' The data phase (fill_files.c) is covered by the same predicate on every path given to sqfs_ostream_open_file.'
