"""C16: rdsquashfs --describe output is valid gensquashfs --pack-file input."""
OBLIGATIONS = []
KN = {1: "name", 2: "slink_target", 3: "file_location", 4: "root_attributes"}
def desc(mode, nlen, tlen, tiers, timeout=300):
    sizes = sorted(set([nlen + 2, nlen + 8, nlen + tlen + 2, nlen + tlen + 3]))
    return dict(name="describe_%s_n%d_t%d" % (KN[mode], nlen, tlen), harness="harness/C16_describe.c",
        sources=["lib/common/src/dir_tree.c", "lib/util/src/canonicalize_name.c", "lib/util/src/filename_sane.c", "lib/sqfs/src/misc.c"],
        included_sources=["bin/rdsquashfs/src/describe.c", "lib/util/src/split_line.c"], incdirs=["bin/rdsquashfs/src"], pre_include=["stubs/vp_alloc_sizes.h"],
        defines=dict(MODE=mode, NLEN=nlen, TLEN=tlen, VP_ALLOC_SIZES=",".join(str(x) for x in sizes)), unwind=48,
        unwindset={"putnum.0": 12, "putnum.1": 12, "vfmt.0": 33, "normalize_slashes.0": nlen + 4, "normalize_slashes.1": nlen + 4, "normalize_slashes.2": nlen + 4,
                   "canonicalize_name.0": nlen + 4, "canonicalize_name.1": nlen + 4, "is_filename_sane.0": nlen + 3,
                   "sqfs_tree_node_get_path.0": 3, "sqfs_tree_node_get_path.1": 3, "vp_calloc.0": 6, "vp_malloc.0": 6, "vp_realloc.0": 6,
                   "split_line.0": 3, "split_line.4": (3 if mode == 1 else 9), "split_line.1": 2 * max(nlen, tlen) + nlen + 6, "split_line.2": 2 * max(nlen, tlen) + nlen + 6,
                   "split_line.3": 3, "strchr.0": max(nlen, tlen) + nlen + 5, "print_quoted.0": 2 * max(nlen, tlen) + nlen + 6, "print_quoted.1": 2 * max(nlen, tlen) + nlen + 6, "split_line_remove_front.0": 8},
        tiers=tiers, timeout=timeout, reach=["tokenised"],
        functions=["print_name, print_simple, print_perm, describe_tree (bin/rdsquashfs/src/describe.c)", "sqfs_tree_node_get_path (lib/common/src/dir_tree.c)",
                   "split_line (lib/util/src/split_line.c)", "canonicalize_name", "is_filename_sane"],
        bound={1: "print_name() of a name of exactly %d symbolic bytes (full range except NUL, '/', newline) tokenised on its own" % nlen,
               2: "describe line of a symlink with concrete name and a target of exactly %d symbolic bytes (full range except NUL, newline)" % tlen,
               3: "describe line of a file with concrete name and an unpack root of exactly %d symbolic bytes" % tlen,
               4: "the root directory alone: every permission pattern, uid 0..7, gid 10..17"}[mode])
OBLIGATIONS.append(dict(desc(2, 1, 2, ["quick", "thorough"]), name="describe_slink_target_with_newline_n1_t2", allow_unreached=True,
    bound="describe line of a symlink with concrete name and a target of exactly 2 symbolic bytes, newline INCLUDED"))
OBLIGATIONS[-1]["defines"] = dict(OBLIGATIONS[-1]["defines"], ALLOW_NL=1)
OBLIGATIONS += [desc(4, 1, 1, ["quick", "thorough"]), desc(1, 1, 1, ["quick", "thorough"]), desc(1, 2, 1, ["quick", "thorough"]), desc(2, 1, 2, ["quick", "thorough"]), desc(3, 1, 2, ["quick", "thorough"]),
                desc(1, 3, 1, ["thorough"], 1200), desc(2, 1, 3, ["thorough"], 1200), desc(3, 1, 3, ["thorough"], 1200), desc(1, 4, 1, ["thorough"], 2400)]
ASSUMPTIONS = ["stdout is captured by stub implementations of fputs/fputc/fwrite/printf (formats %s %u %o %c) - trusted, 40 lines",
               "allocations succeed only for the listed constant sizes (shape bound)",
               "numeric fields are concrete here (number parsing is covered by C07)", "composition: a token that round-trips on its own round-trips inside a line, because the tokeniser carries no state across an unquoted separator",
               "split_line token vector modelled as one static object (allocation success)"]
OUTSIDE = ["names longer than 3 bytes, nested directories (get_path concatenation is covered by C06)", "the data files written by --unpack-path", "gensquashfs beyond the tokeniser (handle_line's keyword table is data)"]
META = dict(
    text="Bounded model checking of printer and tokeniser together: for every name/target byte string of the stated length (full byte range except NUL, '/', newline) the line "
         "printed by the real describe.c is split by the real split_line() into exactly the expected fields with the path / target / location reproduced byte for byte.",
    note="Trusted: stdio capture stubs; lengths <= 3; numeric field round trip argued separately.",
    design_ref="DESIGN.md §4 C16",
    technique="CBMC bounded symbolic execution of real describe.c + split_line.c over all byte strings of bounded length, SAT",
)
META["text"] += ' The harness models the line reader (first newline ends the entry, one trailing CR is stripped); a newline inside a token is a recorded known finding.'
