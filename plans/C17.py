"""C17: packing directives are honoured exactly."""
OBLIGATIONS = []
def srt(nf, tiers):
    return dict(name="sort_stable_nf%d" % nf, harness="harness/C17_sort.c", sources=[], included_sources=["bin/gensquashfs/src/sort_by_file.c"],
        incdirs=["bin/gensquashfs/src"], defines=dict(MODE=1, NF=nf), unwind=nf + 2, tiers=tiers, timeout=300, reach=["sorted"],
        functions=["sort_file_list (bin/gensquashfs/src/sort_by_file.c)"], bound="%d files with arbitrary signed 64 bit priorities (ties included)" % nf)
OBLIGATIONS += [srt(2, ["quick", "thorough"]), srt(3, ["quick", "thorough"]), srt(4, ["quick", "thorough"]), srt(5, ["thorough"])]
def sname(nb, tiers):
    return dict(name="sort_file_name_decoding_nb%d" % nb, harness="harness/C17_sort.c", sources=["lib/util/src/canonicalize_name.c"], included_sources=["bin/gensquashfs/src/sort_by_file.c"],
        incdirs=["bin/gensquashfs/src"], defines=dict(MODE=3, NB=nb), unwind=nb + 3, tiers=tiers, timeout=300, reach=["quoted", "plain", "rejected"],
        functions=["decode_filename (bin/gensquashfs/src/sort_by_file.c)", "canonicalize_name"], bound="every NUL terminated buffer content of up to %d bytes (all byte values)" % nb)
OBLIGATIONS += [sname(4, ["quick", "thorough"]), sname(6, ["thorough"])]
OBLIGATIONS.append(dict(name="procblock_flags_bs4", harness="harness/C17_procblock.c", sources=["lib/util/src/is_memory_zero.c", "lib/util/src/alloc.c"],
    included_sources=["lib/sqfs/src/block_processor/block_processor.c"], defines=dict(BS=4), unwind=8, unwindset={"vp_cmp_init.0": 5, "vp_cmp_init.1": 5},
    tiers=["quick", "thorough"], timeout=300, fp_map={"do_block": ["cs_do_block"]},
    reach=["sparse", "stored_raw", "compressed", "incompressible", "compressor_error"],
    functions=["process_block (lib/sqfs/src/block_processor/block_processor.c)", "is_memory_zero"],
    bound="one block of 0..4 symbolic bytes with every combination of user/internal block flags; compressor returns any contract-conforming value"))
OBLIGATIONS.append(dict(name="packfile_flags", harness="harness/C17_packfile.c", sources=[], included_sources=["bin/gensquashfs/src/mkfs.c"],
    incdirs=["bin/gensquashfs/src"], unwind=4, tiers=["quick", "thorough"], timeout=300, reach=["packed"],
    fp_map={"flush": ["out_flush"], "destroy": ["obj_destroy"]},
    functions=["pack_file (bin/gensquashfs/src/mkfs.c)"], bound="any file size, any legal block size, -T on/off, any user-settable flag combination on the node"))
def fe(bs, sizes, tiers):
    napp = len(sizes)
    return dict(name="frontend_block_split_bs%d_%s" % (bs, "_".join(str(x) for x in sizes)), harness="harness/C01_frontend.c", sources=["lib/sqfs/src/inode.c", "lib/util/src/alloc.c"],
        included_sources=["lib/sqfs/src/block_processor/frontend.c"], incdirs=["lib/sqfs/src/block_processor"], defines=dict(BS=bs, NAPP=napp, SIZES=",".join(str(x) for x in sizes)), unwind=2 * bs + 6, unwindset={"get_new_block.0": 1},
        tiers=tiers, timeout=300, fp_map={"submit": ["submit_stub"], "get_status": ["status_stub"]}, reach=["failed"], allow_unreached=True,
        functions=["sqfs_block_processor_begin_file, sqfs_block_processor_append, sqfs_block_processor_end_file, get_new_block, add_sentinel_block, enqueue_block (lib/sqfs/src/block_processor/frontend.c)"],
        bound="block size scaled to %d bytes, a file delivered in appends of %s bytes (content symbolic), any user flags, no back-pressure, submit may fail" % (bs, "+".join(str(x) for x in sizes)))
_FE_Q = [(1, 1), (2, 1), (1, 2), (2, 3), (4,)]
# three-append shapes and (3, 1) exceeded the 16 GB limit in the thorough sweep and are not registered
_FE_T = [(a, b) for a in (1, 2, 3, 4) for b in (1, 2, 3, 4) if a + b <= 5 and (a, b) not in _FE_Q and (a, b) != (3, 1)] + [(5,), (3,)]
# the remaining shapes (_FE_T, block size 3) run in C01's thorough tier only: same harness, same code
OBLIGATIONS += [fe(2, s, ["quick", "thorough"]) for s in _FE_Q]
OBLIGATIONS.append(dict(name="fragment_block_always_stored_bs4", harness="harness/C17_fragblock.c", sources=["lib/sqfs/src/inode.c", "lib/util/src/is_memory_zero.c", "lib/util/src/alloc.c"],
    included_sources=["lib/sqfs/src/block_processor/block_processor.c", "lib/sqfs/src/block_processor/backend.c"], incdirs=["lib/sqfs/src/block_processor"],
    defines=dict(BS=4), unwind=8, tiers=["quick", "thorough"], timeout=300, fp_map={"do_block": ["cmp_none"], "write_data_block": ["wr_write"]},
    reach=["sparse_tail", "zero_nosparse_tail", "data_tail"],
    functions=["process_block (block_processor.c)", "process_completed_fragment, process_completed_block, set_block_size (lib/sqfs/src/block_processor/backend.c)"],
    bound="one tail-end fragment of 1..4 symbolic bytes with symbolic nosparse / dont_compress flags, no fragment table, then completion of the fragment block it opened"))
ASSUMPTIONS = ["file/stream constructors around pack_file are recording stubs", "compressor contract stub, xxh32 recording stub in the worker obligation"]
OUTSIDE = ["first-match-wins over a parsed sort file (line reader + fnmatch) is not encoded; the flag keyword table (decode_flags: string compares over the tokeniser) did not finish within 250 s and is not registered", "the on-disk effect of DONT_FRAGMENT / DONT_DEDUPLICATE is checked in C01 (frontend) and C08 (block writer)"]
META = dict(
    text="Bounded model checking of the real code paths a packing directive travels: the stable priority sort for all priority vectors, the keyword table, the flag plumbing in pack_file "
         "for all sizes/options, and the worker function's treatment of every flag combination on symbolic block contents.",
    note="Trusted: stubs around pack_file; compressor contract. Sort-file matching loop outside.",
    design_ref="DESIGN.md §4 C17",
    technique="CBMC bounded symbolic execution of real sort_by_file.c / mkfs.c pack_file / process_block, SAT",
)
META["text"] += ' Also decided: the sort file name decoder against an unquoting specification, the flag plumbing through the block processor front end, and the rule that a fragment block is always stored.'
