"""C13: fail-stop - failures are reported, never turned into a bad image."""
OBLIGATIONS = []
FPX = {'read_at': ['vp_file_read_at'], 'destroy': ['mr_destroy'], 'copy': ['mr_copy']}
OBLIGATIONS.append(dict(name="xattr_reader_load_alloc_failure", harness="harness/C13_xattr.c", sources=["lib/util/src/alloc.c"],
    included_sources=["lib/sqfs/src/xattr/xattr_reader.c"], pre_include=["stubs/vp_pre_meta.h", "stubs/vp_alloc_sizes.h"],
    defines=dict(MODE=1, VP_META=16, VP_ALLOC_SIZES="8,16"), unwind=50, unwindset={"sqfs_xattr_reader_load.0": 4},
    tiers=["quick", "thorough"], timeout=300, fp_map=FPX, reach=["loaded", "alloc_failure_reported"],
    functions=["sqfs_xattr_reader_load (lib/sqfs/src/xattr/xattr_reader.c)"],
    bound="arbitrary image <= 48 bytes and superblock fields; metadata reader construction may fail at either site; id block table of 1..2 entries"))
OBLIGATIONS.append(dict(name="xattr_reader_copy_alloc_failure", harness="harness/C13_xattr.c", sources=["lib/util/src/alloc.c"],
    included_sources=["lib/sqfs/src/xattr/xattr_reader.c"], pre_include=["stubs/vp_pre_meta.h"],
    defines=dict(MODE=2, VP_META=16), unwind=6, tiers=["quick", "thorough"], timeout=300, fp_map=FPX, reach=["copy_failed", "copied"],
    functions=["xattr_reader_copy (lib/sqfs/src/xattr/xattr_reader.c)"], bound="loaded reader; each of the two sub-copies may fail"))
OBLIGATIONS.append(dict(name="export_table_error_reported", harness="harness/C13_misc.c", sources=["lib/util/src/array.c", "lib/util/src/alloc.c"],
    included_sources=["lib/sqfs/src/dir_writer.c"], defines=dict(MODE=1), unwind=8, tiers=["quick", "thorough"], timeout=300, reach=["rejected", "written"],
    functions=["sqfs_dir_writer_write_export_table, add_export_table_entry (lib/sqfs/src/dir_writer.c)"], bound="root inode number 0..4, export table capacity 4"))
OBLIGATIONS.append(dict(name="cleanup_unlinks_on_failure", harness="harness/C13_misc.c", sources=[], included_sources=["lib/common/src/writer/cleanup.c"],
    defines=dict(MODE=2), unwind=4, tiers=["quick", "thorough"], timeout=200, reach=["removed", "kept"],
    functions=["sqfs_writer_cleanup (lib/common/src/writer/cleanup.c)"], bound="any exit status"))
OBLIGATIONS.append(dict(name="writer_init_fail_stop", harness="harness/C13_init.c", sources=[], included_sources=["lib/common/src/writer/init.c"],
    incdirs=["lib/common/src"], unwind=13, tiers=["quick", "thorough"], timeout=300, fp_map={"destroy": ["destroy_stub"], "write_options": ["write_options_stub"]},
    reach=["success", "failed_after_open", "failed_before_open"],
    functions=["sqfs_writer_init (lib/common/src/writer/init.c)"],
    bound="every one of the 17 steps of sqfs_writer_init may fail independently (NULL / negative error); xattr and export options symbolic"))
OBLIGATIONS.append(dict(name="writer_finish_fail_stop", harness="harness/C14_finish.c",
    sources=["lib/common/src/writer/finish.c", "lib/sqfs/src/write_super.c", "lib/sqfs/src/super.c"], defines=dict(IOFAIL=1),
    unwind=18, unwindset={"sqfs_super_init.0": 22, "vp_file_write_at.0": 97}, tiers=["quick", "thorough"], timeout=600,
    fp_map={'read_at': ['vp_file_read_at'], 'write_at': ['vp_file_write_at'], 'get_size': ['vp_file_get_size'], 'truncate': ['vp_file_truncate']}, reach=["finished", "failed"],
    functions=["sqfs_writer_finish, padd_sqfs (lib/common/src/writer/finish.c)", "sqfs_super_write (write_super.c)"],
    bound="every sub-writer performs 0..2 appends and may fail, every file write (also the superblock and the padding) may fail, exportable/no_xattr symbolic"))
def mains(mode, name, incs, fp, reach, bound, unwind=6):
    return dict(name=name, harness="harness/C13_mains.c", sources=[], included_sources=incs, incdirs=["bin/tar2sqfs/src", "bin/gensquashfs/src"],
        defines=dict(MODE=mode), unwind=unwind, tiers=["quick", "thorough"], timeout=300, fp_map=fp, reach=reach,
        functions=[", ".join(incs)], bound=bound)
OBLIGATIONS += [
    mains(1, "tar2sqfs_exit_protocol", ["bin/tar2sqfs/src/tar2sqfs.c"], {"destroy": ["dtor_tar", "dtor_in"]}, ["success", "failure"],
          "each of the 6 steps of main (stdin wrapper, tar reader, writer init, process_tarball, post process, finish) may fail"),
    mains(2, "gensquashfs_exit_protocol", ["bin/gensquashfs/src/mkfs.c"], {"destroy": ["dtor_sort", "dtor_dir", "dtor_fin", "dtor_fout"], "flush": ["flush_stub"]}, ["success", "failure"],
          "every step of main may fail; selinux / xattr map / sort file / pack file options symbolic (empty file list)"),
    mains(3, "gensquashfs_pack_file_fail_stop", ["bin/gensquashfs/src/mkfs.c"], {"destroy": ["dtor_fin", "dtor_fout"], "flush": ["flush_stub"]}, ["success", "failure"],
          "1..2 files, each of open / size / stream / block stream / up to 3 splices / flush may fail; input path given or reconstructed"),
]
def ser(kind, tiers):
    nm = {1: "dir", 2: "file", 3: "symlink", 4: "device", 5: "ipc"}[kind]
    return dict(name="serialize_node_%s" % nm, harness="harness/C13_serialize.c", sources=["lib/sqfs/src/inode.c", "lib/util/src/alloc.c"],
        included_sources=["lib/common/src/writer/serialize_fstree.c"], pre_include=["stubs/vp_alloc_sizes.h"], defines=dict(dict(KIND=kind, VP_ALLOC_SIZES="64,66"), **({"PERM": "04751"} if kind <= 3 else {})), unwind=10, leak=True, tiers=tiers, timeout=300,
        fp_map={"get_size": ["get_size_stub"]}, reach=["success", "failure"],
        functions=["sqfs_serialize_fstree, serialize_tree_node, write_dir_entries, tree_node_to_inode (lib/common/src/writer/serialize_fstree.c)",
                   "sqfs_inode_set_xattr_index, sqfs_inode_make_basic, sqfs_inode_make_extended (lib/sqfs/src/inode.c)"],
        bound="one tree node (%s) with %s, symbolic ids, times, link count, xattr index; every step of the serialiser may fail" % (nm, "permission bits 04751" if kind <= 3 else "all 4096 permission bit values"))
OBLIGATIONS += [ser(k, ["quick", "thorough"]) for k in (1, 2, 3, 4, 5)]
def tarball(nent, tiers):
    return dict(name="tar2sqfs_process_tarball_n%d" % nent, harness="harness/C13_tarball.c", sources=[], included_sources=["bin/tar2sqfs/src/process_tarball.c"],
        incdirs=["bin/tar2sqfs/src"], defines=dict(NENT=nent), unwind=6, leak=True, tiers=tiers, timeout=300,
        fp_map={"destroy": ["dtor_in", "dtor_out"], "flush": ["flush_stub"], "next": ["it_next"], "read_link": ["it_read_link"], "open_file_ro": ["it_open_file_ro"], "read_xattr": ["it_read_xattr"]},
        reach=["success", "failure"] + (["root"] if nent == 1 else []),
        functions=["process_tarball, create_node_and_repack_data, set_root_attribs, copy_xattr, write_file (bin/tar2sqfs/src/process_tarball.c)"],
        bound="%d archive entr%s of symbolic kind (file, directory, symlink, hard link, device; root or named), 0..2 xattrs (one possibly unsupported), up to 3 splices, every step may fail; no --root-becomes" % (nent, "y" if nent == 1 else "ies"))
OBLIGATIONS += [tarball(1, ["quick", "thorough"]), tarball(2, ["thorough"])]
def s2t(nent, tiers):
    return dict(name="sqfs2tar_exit_protocol_n%d" % nent, harness="harness/C13_sqfs2tar.c", sources=[], included_sources=["bin/sqfs2tar/src/sqfs2tar.c"],
        incdirs=["bin/sqfs2tar/src"], defines=dict(NENT=nent), unwind=6, leak=True, tiers=tiers, timeout=300,
        fp_map={"destroy": ["d_out0", "d_out1", "d_it0", "d_it1", "d_in", "d_xf"], "flush": ["out_flush"], "append": ["out_append"], "get_filename": ["out_name"],
                "next": ["it_next"], "read_link": ["it_read_link"], "open_file_ro": ["it_open_file_ro"], "read_xattr": ["it_read_xattr"]},
        reach=["success", "failure"],
        functions=["main, write_entry, write_file_data, terminate_archive (bin/sqfs2tar/src/sqfs2tar.c)"],
        bound="%d image entr%s of symbolic kind (file, hard link, directory, symlink, socket), compressor / hard link filter / --no-skip symbolic, up to 3 splices, every step may fail" % (nent, "y" if nent == 1 else "ies"))
OBLIGATIONS += [s2t(1, ["quick", "thorough"]), s2t(2, ["thorough"])]
def fill(nl, adir, tiers, timeout=600):
    sizes = ",".join(str(x) for x in sorted(set(list(range(1, 2 * nl + 4)) + [16])))
    return dict(name="unpack_data_paths_nl%d_%s" % (nl, "dir" if adir else "top"), harness="harness/C06_fill.c",
        sources=["lib/common/src/dir_tree.c", "lib/util/src/canonicalize_name.c", "lib/util/src/filename_sane.c", "lib/sqfs/src/misc.c", "lib/sqfs/src/inode.c"],
        included_sources=["bin/rdsquashfs/src/fill_files.c"], incdirs=["bin/rdsquashfs/src"], pre_include=["stubs/vp_alloc_sizes.h"],
        defines=dict(NL=nl, ADIR=adir, VP_ALLOC_SIZES=sizes, PRESET_CAP=1), unwind=2 * nl + 6, unwindset={"gen_file_list_dfs": 4, "vp_malloc.0": 2 * nl + 6, "vp_realloc.0": 2 * nl + 6, "fill_files.0": 3, "fill_files.1": 5, "clear_file_list.0": 3},
        leak=True, tiers=tiers, timeout=timeout, fp_map={"destroy": ["d_out", "d_in"], "flush": ["flush_stub"]}, reach=["not_opened", "unpacked", "failure"],
        functions=["fill_unpacked_files, gen_file_list_dfs, add_file, fill_files, clear_file_list (bin/rdsquashfs/src/fill_files.c)",
                   "sqfs_tree_node_get_path (lib/common/src/dir_tree.c)", "canonicalize_name", "is_filename_sane"],
        bound="tree root -> A%s; names of %d symbolic bytes each (all byte values incl. NUL, '/', '.'); open, stream creation, up to 3 splices and flush may fail" % (" (directory) -> B" if adir else "", nl))
OBLIGATIONS += [fill(1, 0, ["quick", "thorough"]), fill(1, 1, ["quick", "thorough"]), fill(2, 0, ["thorough"])]
OBLIGATIONS.append(dict(name="unpack_file_list_growth", harness="harness/C06_fill.c",
    sources=["lib/common/src/dir_tree.c", "lib/util/src/canonicalize_name.c", "lib/util/src/filename_sane.c", "lib/sqfs/src/misc.c", "lib/sqfs/src/inode.c"],
    included_sources=["bin/rdsquashfs/src/fill_files.c"], incdirs=["bin/rdsquashfs/src"], defines=dict(NL=1, ADIR=0, GROW=1), unwind=8, malloc_fail=True,
    leak=True, tiers=["quick", "thorough"], timeout=300, fp_map={"destroy": ["d_out", "d_in"], "flush": ["flush_stub"]}, reach=["grown", "alloc_failed"],
    functions=["add_file, clear_file_list (bin/rdsquashfs/src/fill_files.c)"], bound="first insertion into the empty list (256 slots), any allocation may fail"))
OBLIGATIONS.append(dict(name="dir_rec_next_alloc_failure", harness="harness/C13_dirrec.c", sources=["lib/util/src/alloc.c"], included_sources=["lib/sqfs/src/io/dir_rec.c"], pre_include=["stubs/vp_alloc_sizes.h"], defines=dict(VP_ALLOC_SIZES="17,18,66,68,70,96"),
    unwind=8, malloc_fail=True, tiers=["quick", "thorough"], timeout=300,
    fp_map={"destroy": ["base_destroy"], "next": ["base_next"], "open_subdir": ["base_open_subdir"]},
    reach=["entry", "error", "end"], allow_unreached=True,
    functions=["next, expand_path, pop, destroy, sqfs_dir_iterator_create_recursive (lib/sqfs/src/io/dir_rec.c)"],
    bound="one call of next() from the state after construction (root or a sub-directory on the stack), the base iterator yields a file, a directory, an error or the end; every allocation and every base call may fail"))
OBLIGATIONS.append(dict(name="unpack_tree_syscall_failure_nl1", harness="harness/C06_restore.c",
    sources=["lib/common/src/dir_tree.c", "lib/util/src/canonicalize_name.c", "lib/util/src/filename_sane.c", "lib/sqfs/src/misc.c"],
    included_sources=["bin/rdsquashfs/src/restore_fstree.c"], incdirs=["bin/rdsquashfs/src"], pre_include=["stubs/vp_alloc_sizes.h"],
    defines=dict(NL=1, SYSFAIL=1, VP_ALLOC_SIZES="1,2,3,4,5"), unwind=8, unwindset={"create_node_dfs": 4, "set_attribs": 4, "vp_malloc.0": 7},
    tiers=["quick", "thorough"], timeout=600, reach=["create_failed", "attrib_failed", "all_ok"],
    functions=["restore_fstree, create_node_dfs, create_node, update_tree_attribs, set_attribs (bin/rdsquashfs/src/restore_fstree.c)"],
    bound="tree root -> A -> B with 1-byte symbolic names, all inode types, unpack flags symbolic; mkdir/symlink/mknod/open/utimensat/fchownat/fchmodat may each fail"))
OBLIGATIONS.append(dict(name="rdsquashfs_exit_protocol", harness="harness/C13_rdsquashfs.c", sources=[], included_sources=["bin/rdsquashfs/src/rdsquashfs.c"],
    incdirs=["bin/rdsquashfs/src"], unwind=10, unwindset={"tree_sort": 1, "list_sort": 1, "list_sort.0": 2, "tree_sort.0": 2, "tree_sort.1": 2}, tiers=["quick", "thorough"], timeout=300, fp_map={"destroy": ["destroy_stub"]}, reach=["success", "failure"],
    functions=["main (bin/rdsquashfs/src/rdsquashfs.c)"],
    bound="operation symbolic (list, cat, unpack, describe, xattr dump, stat, none), image with or without xattrs, every step of set-up and operation may fail, up to 3 splices for cat"))
FPIO = {'read_at': ['vp_file_read_at'], 'write_at': ['vp_file_write_at'], 'truncate': ['vp_file_truncate'], 'get_size': ['vp_file_get_size'], 'do_block': ['cw_do_block', 'vp_cmp_do_block']}
OBLIGATIONS.append(dict(name="blockwriter_io_failure_h1_nb1", harness="harness/C08_blockwriter.c", sources=["lib/util/src/file_cmp.c", "lib/util/src/array.c"],
    included_sources=["lib/sqfs/src/block_writer.c"], defines=dict(H=1, NB=1, SZ=2, MODE=3), unwind=10, tiers=["quick", "thorough"], timeout=300, fp_map=FPIO,
    reach=["io_error_reported", "stored"], functions=["write_data_block, deduplicate_blocks (lib/sqfs/src/block_writer.c)", "check_file_range_equal"],
    bound="history of 1 block, one new 1-block file, every write_at/read_at/truncate may fail"))
OBLIGATIONS.append(dict(name="blockwriter_io_failure_h2_nb2", harness="harness/C08_blockwriter.c", sources=["lib/util/src/file_cmp.c", "lib/util/src/array.c"],
    included_sources=["lib/sqfs/src/block_writer.c"], defines=dict(H=2, NB=2, SZ=2, MODE=3), unwind=14, tiers=["thorough"], timeout=1200, fp_map=FPIO,
    reach=["io_error_reported", "stored"], functions=["write_data_block, deduplicate_blocks (lib/sqfs/src/block_writer.c)"],
    bound="history of 2 blocks, one new 2-block file, every file operation may fail"))
def mwio(m, a, napp, tiers, timeout):
    return dict(name="meta_writer_io_failure_m%d_a%d_n%d" % (m, a, napp), harness="harness/C03_metaw.c", sources=[], included_sources=["lib/sqfs/src/meta_writer.c"],
        pre_include=["stubs/vp_pre_meta.h"], defines=dict(VP_META=m, A=a, NAPP=napp, VP_CMP_MAXOUT=m, IOFAIL=1), unwind=max(m + 4, a + 2, 10), unwindset={"vp_cmp_init.0": 5, "vp_cmp_init.1": 5},
        tiers=tiers, timeout=timeout, fp_map=FPIO, reach=["compressor_error"], allow_unreached=True,
        functions=["sqfs_meta_writer_append/flush, write_block, sqfs_meta_write_write_to_file (lib/sqfs/src/meta_writer.c)"],
        bound="%d appends of <= %d bytes, block size %d, every write_at may fail" % (napp, a, m))
OBLIGATIONS += [mwio(3, 3, 1, ["quick", "thorough"], 300), mwio(4, 3, 2, ["thorough"], 900)]

ASSUMPTIONS = ["allocation failure is modelled at the constructor / copy-hook level (stub returns NULL nondeterministically)", "I/O failure through the memfile stub (vp_io_may_fail)"]
OUTSIDE = ["whole-tool exit status and 'exit 0 => output identical to a fault-free run' (follows per function, not checked end to end)", "fault positions in functions that are not harnessed"]
META = dict(
    text="Bounded model checking of error paths with faults injected as nondeterministic choices (allocation failure, I/O failure): for every fault position inside the harnessed "
         "function the solver proves that the function reports an error instead of success and leaves no half-built or foreign state behind.",
    note="Trusted: fault models in the stubs; per-function scope.",
    design_ref="DESIGN.md §4 C13",
    technique="CBMC bounded symbolic execution of real error paths with nondeterministic fault injection (all fault positions), SAT",
)
META["text"] += " 'Fault at every step' harnesses (every callee a stub that may fail, plus the proof that nothing runs after the failed step) cover the writer's init/finish/serialise stages, the main functions of tar2sqfs, gensquashfs and sqfs2tar, tar2sqfs' archive loop, gensquashfs' per-file packing, both phases of rdsquashfs unpacking and the recursive directory iterator under failing allocations."
