"""C15: stream compression of tar input/output is transparent."""
OBLIGATIONS = []
def wrap(kind, tiers):
    nm = {1: "gzip", 2: "xz", 3: "bzip2", 4: "zstd"}[kind]
    return dict(name="codec_wrapper_contract_%s" % nm, harness="harness/C15_wrappers.c", sources=[], included_sources=["lib/xfrm/src/%s.c" % nm],
        defines=dict(KIND=kind), unwind=(12 if kind == 4 else 8), termination=True, tiers=tiers, timeout=300, reach=["end", "finish_without_input", "done"],
        functions=["process_data (lib/xfrm/src/%s.c)" % nm],
        bound="one process_data call: input 0..4 bytes, output space 0..4 bytes, flush mode NONE/FULL, library backlog 0..3 bytes, every library behaviour the contract stub allows")
OBLIGATIONS += [wrap(1, ["quick", "thorough"]), wrap(2, ["quick", "thorough"]), wrap(3, ["quick", "thorough"]), wrap(4, ["quick", "thorough"])]
OBLIGATIONS.append(dict(wrap(1, ["quick", "thorough"]), name="codec_wrapper_corrupt_input_gzip", defines=dict(KIND=1, CORRUPT=1), reach=["library_error", "done"],
    bound="one decompressing process_data call: input 0..4 bytes, output space 0..4 bytes, the library may report Z_DATA_ERROR / Z_NEED_DICT / Z_MEM_ERROR without progress at any call"))
OBLIGATIONS.append(dict(name="codec_magic_detection", harness="harness/C15_magic.c", sources=[], included_sources=["lib/xfrm/src/compress.c"], unwind=10,
    unwindset={"memcmp.0": 8}, tiers=["quick", "thorough"], timeout=200, reach=["detected", "plain"],
    functions=["xfrm_compressor_id_from_magic (lib/xfrm/src/compress.c)"], bound="every buffer of 0..8 bytes (exact-size heap object)"))
def ost(n, k, buf, tiers, timeout=400):
    return dict(name="ostream_wrapper_n%d_k%d_buf%d" % (n, k, buf), harness="harness/C15_ostream.c", sources=[], included_sources=["lib/xfrm/src/ostream.c"],
        defines={"N": n, "K": k, "BUF": buf, "AGENTD_SQUASHFS_TOOLS_NG_VERIF_BUFSZ": buf}, unwind=max(n + buf, n * k + 3) + 1, unwindset={'flush_inbuf.0': n * k + 4, 'xfrm_append.0': n + 2}, termination=True, tiers=tiers, timeout=timeout,
        fp_map={"process_data": ["codec"], "append": ["sink_append"], "flush": ["sink_flush"]}, reach=["done"],
        functions=["xfrm_append, flush_inbuf, xfrm_flush (lib/xfrm/src/ostream.c)"],
        bound="%d appends of 0..%d symbolic bytes then flush; wrapper buffers scaled to %d bytes (hook); identity codec with symbolic per-call consumption/production and a 2 byte trailer "
              "(pending output may exceed one output buffer); loops must terminate within %d iterations" % (k, n, buf, n * k + 6))
OBLIGATIONS += [ost(2, 1, 2, ["quick", "thorough"]), ost(2, 2, 2, ["thorough"], 1800), ost(3, 2, 2, ["thorough"], 3000)]

def ist(mlen, buf, tiers, timeout=400):
    return dict(name="istream_wrapper_m%d_buf%d" % (mlen, buf), harness="harness/C15_istream.c", sources=[], included_sources=["lib/xfrm/src/istream.c"],
        defines={"MLEN": mlen, "BUF": buf, "AGENTD_SQUASHFS_TOOLS_NG_VERIF_BUFSZ": buf}, unwind=mlen + 5, termination=True, tiers=tiers, timeout=timeout,
        fp_map={"process_data": ["codec"], "get_buffered_data": ["src_get"], "advance_buffer": ["src_adv"]}, reach=["complete", "truncated_eof"],
        functions=["precache, xfrm_get_buffered_data, xfrm_advance_buffer (lib/xfrm/src/istream.c)"],
        bound="one compressed member of %d payload bytes + trailer, delivered complete or cut after any byte, in arbitrary chunks; wrapper buffer scaled to %d bytes" % (mlen, buf))
OBLIGATIONS += [ist(2, 2, ["quick", "thorough"]), ist(3, 2, ["thorough"], 1200)]

ASSUMPTIONS = ["codec libraries replaced by one contract model (consume <= avail_in, produce <= avail_out from a backlog, end of stream only when finishing with empty input and backlog, progress when possible)"]
OUTSIDE = ["the codecs themselves; 'a reference decompressor expands the output' needs the real libraries", "the decompressing direction of the codec wrappers beyond what the istream obligations drive"]
META = dict(
    text="Bounded model checking of the real stream wrappers against contract models of the codec libraries: offsets advance consistently, end-of-stream is reported exactly when "
         "the library reports it, and the progress obligation that makes the finishing flush of the output stream terminate holds for all sizes, modes and library behaviours.",
    note="Trusted: the library contract model. Real codecs outside.",
    design_ref="DESIGN.md §4 C15",
    technique="CBMC bounded symbolic execution of real xfrm wrappers against nondeterministic library contract stubs, SAT",
)
META["text"] += ' Since the first version: the zstd wrapper is covered by the same contract (END exactly when the library ended - this found a truncated-output defect), and codec detection by magic bytes is decided for every buffer of up to 8 bytes.'
