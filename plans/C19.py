"""C19: copies of library objects are independent, equivalent, safely destroyable."""
OBLIGATIONS = []
def table(kind, nent, tiers):
    nm = {1: "id_table", 2: "frag_table"}[kind]
    dest = {1: ["id_table_destroy"], 2: ["frag_table_destroy"]}[kind]
    cp = {1: ["id_table_copy"], 2: ["frag_table_copy"]}[kind]
    return dict(name="%s_copy_n%d" % (nm, nent), harness="harness/C19_table.c",
        sources=["lib/sqfs/src/%s.c" % nm, "lib/util/src/array.c", "lib/util/src/alloc.c"],
        defines=dict(KIND=kind, NENT=nent), unwind=nent + 4, tiers=tiers, timeout=300, leak=True,
        fp_map={"destroy": dest, "copy": cp}, reach=["orig_first", "copy_first"],
        functions=["%s_copy, %s_destroy, sqfs_%s_create (lib/sqfs/src/%s.c)" % (nm, nm, nm, nm), "sqfs_copy, sqfs_drop (include/sqfs/predef.h)", "array_init_copy, array_cleanup (lib/util/src/array.c)"],
        bound="table with %d symbolic entries built by the real API, one copy, one symbolic lookup on both, one mutation of each side, both release orders; memory-leak check on" % nent)
for k in (1, 2):
    for n in (0, 1, 2):
        OBLIGATIONS.append(table(k, n, ["quick", "thorough"]))

FPM = {'read_at': ['vp_file_read_at'], 'do_block': ['vp_cmp_do_block'], 'destroy': ['vp_file_destroy', 'vp_cmp_destroy'], 'copy': ['meta_reader_copy']}
OBLIGATIONS.append(dict(name="meta_reader_copy", harness="harness/C19_meta.c", sources=[], included_sources=["lib/sqfs/src/meta_reader.c"], pre_include=["stubs/vp_pre_meta.h"],
    defines=dict(VP_META=3, VP_IMG=10, RD=1, VP_CMP_MAXOUT=3, VP_MAXIO=3), unwind=12,
    unwindset={"sqfs_meta_reader_read.0": 3, "vp_cmp_do_block.0": 4, "vp_cmp_init.0": 5, "vp_cmp_init.1": 5, "vp_file_read_at.0": 4},
    tiers=["quick", "thorough"], timeout=150, fp_map=FPM, reach=["orig_first", "copy_first", "orig_read_ok"],
    functions=["meta_reader_copy, meta_reader_destroy, sqfs_meta_reader_create/seek/read (lib/sqfs/src/meta_reader.c)"],
    bound="arbitrary image <= 10 bytes, metadata block size 3; history: one arbitrary seek before the copy, one arbitrary seek on the copy, then a 1-byte read on the original compared with a fresh reader; both release orders"))

OBLIGATIONS.append(dict(name="data_reader_copy", harness="harness/C19_data.c", sources=["lib/sqfs/src/frag_table.c", "lib/util/src/array.c", "lib/util/src/alloc.c", "lib/sqfs/src/inode.c"],
    included_sources=["lib/sqfs/src/data_reader.c"], defines=dict(BS=4), unwind=8, unwindset={"vp_cmp_init.0": 5, "vp_cmp_init.1": 5},
    tiers=["quick", "thorough"], timeout=300, leak=True,
    fp_map={'read_at': ['vp_file_read_at'], 'do_block': ['vp_cmp_do_block'], 'destroy': ['vp_file_destroy', 'vp_cmp_destroy', 'frag_table_destroy'], 'copy': ['frag_table_copy']},
    reach=["orig_first", "copy_first", "with_data_cache", "with_frag_cache"],
    functions=["data_reader_copy, data_reader_destroy, sqfs_data_reader_create (lib/sqfs/src/data_reader.c)", "frag_table_copy, frag_table_destroy (lib/sqfs/src/frag_table.c)"],
    bound="reader built by the real constructor, block size 4, fragment table with one symbolic entry, data cache / fragment cache present or absent (symbolic), both release orders, leak check on"))

OBLIGATIONS.append(dict(name="dir_reader_copy", harness="harness/C19_dirreader.c", sources=[], included_sources=["lib/sqfs/src/dir_reader.c"],
    unwind=8, tiers=["quick", "thorough"], timeout=300, leak=True, fp_map={'destroy': ['mr_destroy'], 'copy': ['mr_copy']},
    reach=["orig_first", "copy_first", "with_cache"],
    functions=["dir_reader_copy, dir_reader_destroy (lib/sqfs/src/dir_reader.c)"],
    bound="reader with/without SQFS_DIR_READER_DOT_ENTRIES, inode cache empty or populated (symbolic), both release orders; rbtree and metadata readers are identity-tracking contract stubs"))

OBLIGATIONS.append(dict(name="gzip_compressor_copy", harness="harness/C19_gzip.c", sources=[], stubs=["stubs/vp_ctype.c"], included_sources=["lib/sqfs/src/comp/gzip.c"],
    incdirs=["lib/sqfs/src/comp"], unwind=6, unwindset={"memcmp.0": 80}, leak=True, malloc_fail=True, tiers=["quick", "thorough"], timeout=300,
    fp_map={"get_configuration": ["gzip_get_configuration"]}, reach=["rejected", "copy_failed", "copied"],
    functions=["gzip_compressor_create, gzip_create_copy, gzip_destroy, gzip_get_configuration (lib/sqfs/src/comp/gzip.c)"],
    bound="every configuration (level, window, flags symbolic); zlib replaced by a model that records the initialisation parameters; any allocation / init may fail"))
def xwr(nb, tiers):
    return dict(name="xattr_writer_copy_nb%d" % nb, harness="harness/C19_xattrwr.c", sources=[], included_sources=["lib/sqfs/src/xattr/xattr_writer.c"],
        incdirs=["lib/sqfs/src/xattr", "."], defines=dict(NB=nb), unwind=nb + 3, tiers=tiers, timeout=300, reach=["copied", "copy_failed"],
        functions=["xattr_writer_copy (lib/sqfs/src/xattr/xattr_writer.c)"],
        bound="an xattr writer holding %d recorded key-value blocks (references and sizes symbolic); container copies (string tables, pair array, tree) are contract stubs that may fail" % nb)
OBLIGATIONS += [xwr(0, ["quick", "thorough"]), xwr(1, ["quick", "thorough"]), xwr(2, ["quick", "thorough"]), xwr(3, ["thorough"])]
ASSUMPTIONS = ["allocation succeeds in these obligations (failure paths belong to C13)", "destroy/copy hooks are the ones of the object's kind (function pointer targets restricted per harness)"]
OUTSIDE = ["compressor copies against the real codec libraries", "longer operation histories before the copy than the ones listed per obligation"]
META = dict(
    text="Bounded model checking of each copy hook in the real code: object header of the copy (refcount 1, destructor and copy hook of its kind), no shared owned "
         "buffers, identical answer to a symbolic query, mutations not visible across, and release in both orders with CBMC's double-free, use-after-free and "
         "memory-leak checks enabled.",
    note="Trusted: static object layout for readers, stubs for file/compressor; allocation failure excluded here. Object kinds covered are listed per obligation.",
    design_ref="DESIGN.md §4 C19",
    technique="CBMC bounded symbolic execution of the real copy/destroy hooks with memory-leak and pointer checks, SAT",
)
META["text"] += ' Copies of the directory reader, the xattr writer (block chain and tree context) and the gzip compressor (against a recording zlib model) are covered as well.'
