"""C08: deduplication never changes data, even under checksum collisions."""
FP = {'read_at': ['vp_file_read_at'], 'write_at': ['vp_file_write_at'], 'truncate': ['vp_file_truncate'], 'get_size': ['vp_file_get_size'],
      'do_block': ['vp_cmp_do_block']}
OBLIGATIONS = []
def bw(h, nb, sz, mode, tiers, timeout=300):
    img = 3 + (h + nb) * sz + 1
    return dict(name="blockwriter_%s_h%d_nb%d_sz%d" % ("step" if mode == 1 else "share", h, nb, sz), harness="harness/C08_blockwriter.c",
        sources=["lib/util/src/file_cmp.c", "lib/util/src/array.c"], included_sources=["lib/sqfs/src/block_writer.c"],
        defines=dict(H=h, NB=nb, SZ=sz, MODE=mode), unwind=img + 2, tiers=tiers, timeout=timeout, fp_map=FP,
        reach=(["stored"] + (["deduplicated"] if h >= nb else []) + ["dont_dedup"]) if mode == 1 else ["deduplicated"],
        functions=["write_data_block, deduplicate_blocks, store_block_location (lib/sqfs/src/block_writer.c)", "check_file_range_equal (lib/util/src/file_cmp.c)", "array_append (lib/util/src/array.c)"],
        bound="arbitrary history of %d recorded blocks (sizes 1..%d, compressed flag, checksum all symbolic) + arbitrary disk bytes, then one file of %d blocks "
              "(sizes 1..%d, data, checksums, compressed/sparse/dont_deduplicate flags symbolic); checksums are unconstrained, i.e. every collision pattern" % (h, sz, nb, sz))
for (h, nb) in [(0, 1), (1, 1), (2, 1), (3, 1)]:
    OBLIGATIONS.append(bw(h, nb, 2, 1, ["quick", "thorough"]))
# (3, 2) and (3, 3) ran out of memory / time in the thorough sweep under load (> 16 GB) and are not registered
for (h, nb) in [(2, 2), (4, 2), (4, 1)]:
    OBLIGATIONS.append(bw(h, nb, 2, 1, ["thorough"], 1200))
OBLIGATIONS.append(bw(2, 1, 3, 1, ["thorough"], 1200))
OBLIGATIONS.append(bw(1, 1, 2, 2, ["quick", "thorough"]))
OBLIGATIONS.append(bw(2, 2, 2, 2, ["thorough"], 1200))
OBLIGATIONS.append(bw(3, 2, 2, 2, ["thorough"], 1200))

def fcmp(scr, ln, tiers):
    return dict(name="file_range_equal_scr%d_len%d" % (scr, ln), harness="harness/C08_filecmp.c", sources=["lib/util/src/file_cmp.c"],
        defines=dict(SCR=scr, LEN=ln), unwind=2 * ln + 4, termination=True, tiers=tiers, timeout=300, fp_map=FP, reach=["equal_multi_chunk", "different"],
        functions=["check_file_range_equal (lib/util/src/file_cmp.c)"],
        bound="two ranges of 0..%d bytes at arbitrary offsets of an arbitrary file, scratch buffer %d bytes (=> up to %d chunks)" % (ln, scr, (ln + scr // 2 - 1) // (scr // 2)))
OBLIGATIONS += [fcmp(4, 5, ["quick", "thorough"]), fcmp(2, 4, ["quick", "thorough"]), fcmp(4, 8, ["thorough"])]
def frag(where, tiers, bs=4):
    names = {0: "current_frag_block", 1: "in_flight_copy", 2: "on_disk_uncompressed", 3: "on_disk_compressed"}
    return dict(name="fragment_equal_%s_bs%d" % (names[where], bs), harness="harness/C08_frag.c", sources=["lib/util/src/alloc.c"],
        included_sources=["lib/sqfs/src/block_processor/block_processor.c"], defines=dict(BS=bs, WHERE=where), unwind=14,
        unwindset={"vp_cmp_init.0": 5, "vp_cmp_init.1": 5}, tiers=tiers, timeout=300, fp_map=FP, reach=["match", "different"] + (["lookup_error"] if where >= 2 else []),
        functions=["chunk_info_equals, load_frag_block (lib/sqfs/src/block_processor/block_processor.c)"],
        bound="fragment block size %d; candidate chunk (index, offset, size, hash) and key hash fully symbolic; candidate's block located %s; "
              "all fragment bytes / disk bytes symbolic" % (bs, names[where]))
for w in (0, 1, 2, 3):
    OBLIGATIONS.append(frag(w, ["quick", "thorough"]))
for w in (2, 3):
    o = frag(w, ["quick", "thorough"])
    o["name"] += "_after_other_lookup"
    o["defines"] = dict(o["defines"], TWOSTEP=1)
    o["bound"] += "; preceded by one lookup that re-read a different on-disk fragment block (any index, incl. 0) into the cache"
    OBLIGATIONS.append(o)
for w in (0, 1, 2, 3):
    OBLIGATIONS.append(frag(w, ["thorough"], 8))

ASSUMPTIONS = [
    "block writer invariant I_bw (harness, trusted): recorded blocks contiguous, non-empty, file ends at the end of the last recorded block, file_start <= used",
    "checksums are unconstrained symbols (superset of any truncated/colliding hash function)",
    "writer object laid out statically with the state sqfs_block_writer_create() establishes, flags = 0; array capacity large enough (no realloc inside the step)",
    "memfile stub; no I/O errors in these obligations",
    "fragment table lookup stubbed (one arbitrary entry); decompressor = deterministic stub; processor object laid out statically (file and uncmp set, as the tools do)",
]
OUTSIDE = ["files of more than 3 blocks / histories of more than 4 blocks per query (induction covers longer histories through I_bw)", "real xxh32 (strictly fewer collisions)"]
META = dict(
    text="Inductive-step bounded model checking of the real block writer and fragment comparison code: from an arbitrary history satisfying the writer invariant, "
         "with arbitrary disk bytes and *unconstrained checksums* (so every collision pattern is explored, not just rare ones), writing one more file returns a "
         "location whose bytes equal the file's bytes, leaves earlier data intact, never truncates into it, and re-establishes the invariant; identical runs still share.",
    note="Trusted: I_bw and the static object layout in the harness, memfile stub. Bounds: <= 4 history blocks, <= 3 blocks per file, <= 3 bytes per block.",
    design_ref="DESIGN.md §4 C08",
    technique="CBMC bounded symbolic execution of real block_writer.c/file_cmp.c from symbolic invariant states (inductive step), SAT",
)
