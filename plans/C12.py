"""C12: results do not depend on how the OS splits reads and writes."""
OBLIGATIONS = []
def fileio(mode, n, tiers):
    return dict(name="file_%s_n%d" % ({1: "read_at", 2: "write_at"}[mode], n), harness="harness/C12_file.c", sources=[],
        included_sources=["lib/sqfs/src/io/file.c"], defines=dict(MODE=mode, N=n), unwind=n + 5, termination=True,
        tiers=tiers, timeout=300, reach=["ok", "err"] + (["ok_with_short_reads" if mode == 1 else "ok_with_short_writes"] if n > 1 else []),
        functions=["stdio_%s (lib/sqfs/src/io/file.c)" % {1: "read_at", 2: "write_at"}[mode]],
        bound="request of <= %d bytes at any offset of a %d-byte file; each p%s() call returns any count 1..n, EINTR (<= 2), EIO or 0; "
              "loop termination checked by unwinding assertion" % (n, n + 3, {1: "read", 2: "write"}[mode]))
for m in (1, 2):
    OBLIGATIONS.append(fileio(m, 3, ["quick", "thorough"]))
    OBLIGATIONS.append(fileio(m, 5, ["thorough"]))

def istream(buf, k, tiers):
    return dict(name="istream_buf%d_k%d" % (buf, k), harness="harness/C12_istream.c", sources=[], included_sources=["lib/sqfs/src/io/istream.c"],
        defines={"BUF": buf, "K": k, "AGENTD_SQUASHFS_TOOLS_NG_VERIF_BUFSZ": buf}, unwind=buf + 5, termination=True,
        tiers=tiers, timeout=400, reach=["eof", "more", "io_error", "more_after_short_reads"],
        functions=["file_get_buffered_data, precache, file_advance_buffer (lib/sqfs/src/io/istream.c)"],
        bound="source of <= %d bytes, stream buffer scaled to %d bytes (hook), %d rounds of get_buffered_data(want <= %d)/advance(any), "
              "every read() returns any count 1..n, EINTR (<= 2), EIO" % (buf + 3, buf, k, buf + 2))
OBLIGATIONS.append(istream(3, 2, ["quick", "thorough"]))
OBLIGATIONS.append(istream(4, 3, ["thorough"]))

def ostream(n, k, tiers):
    return dict(name="ostream_n%d_k%d" % (n, k), harness="harness/C12_ostream.c", sources=["lib/util/src/alloc.c"], included_sources=["lib/sqfs/src/io/ostream.c"],
        defines=dict(N=n, K=k), unwind=n * k + 5, termination=True, tiers=tiers, timeout=400,
        reach=["ok", "err", "ok_with_short_writes", "ok_with_hole_seek"],
        functions=["file_append, write_all, realize_sparse, file_flush (lib/sqfs/src/io/ostream.c)"],
        bound="%d appends of <= %d bytes each (data or hole, symbolic), then flush; NO_SPARSE flag symbolic; every write() returns any count "
              "1..n, EINTR (<= 2), EIO or 0; seek may fail" % (k, n))
OBLIGATIONS.append(ostream(2, 2, ["quick", "thorough"]))
OBLIGATIONS.append(ostream(3, 2, ["thorough"]))	# (3, 3) did not finish within 1200 s in the thorough sweep

def sapi(mode, n, tiers):
    nm = {1: "read", 2: "skip", 3: "splice"}[mode]
    return dict(name="stream_api_%s_n%d" % (nm, n), harness="harness/C12_streamapi.c", sources=["lib/sqfs/src/io/stream_api.c"],
        defines=dict(MODE=mode, N=n), unwind=n + 4, termination=True, tiers=tiers, timeout=300, reach=["ok", "err"],
        fp_map={"get_buffered_data": ["st_get"], "advance_buffer": ["st_adv"], "append": ["os_append"]},
        functions=["sqfs_istream_%s (lib/sqfs/src/io/stream_api.c)" % nm],
        bound="request <= %d bytes from a source of <= %d bytes delivered in arbitrary non-empty chunk sizes; source/sink may fail" % (n, n + 2))
for m in (1, 2, 3):
    OBLIGATIONS.append(sapi(m, 4, ["quick", "thorough"]))
    OBLIGATIONS.append(sapi(m, 6, ["thorough"]))

ASSUMPTIONS = [
    "system call models (stubs/vp_syscalls.h): a transfer moves 1..n bytes, EINTR happens at most twice per harness run (progress assumption), EIO is a hard error, 0 means EOF/full",
    "stream objects are laid out statically with zero-initialised state as their constructors (calloc) establish",
    "BUFSZ of io/istream.c scaled through the guarded hook AGENTD_SQUASHFS_TOOLS_NG_VERIF_BUFSZ",
]
OUTSIDE = ["the kernel / pipes themselves", "xfrm stream wrappers (C15), tar record reader and get_line (C07) are covered by their own properties",
           "transfers larger than the stated bounds (the loops are uniform in the size)"]
META = dict(
    text="Bounded model checking of the real retry loops with the system calls replaced by nondeterministic models: for every split schedule (any short "
         "count per call, EINTR, EIO, EOF) the solver proves that a successful call moved exactly the requested bytes in order, that short reads are never "
         "taken for end-of-file, that errors are reported iff a hard error occurred, and that every loop terminates (unwinding assertions).",
    note="Trusted: the syscall models and their progress assumption (<= 2 EINTR); transfer sizes <= 6 bytes, buffer scaled to 3-4 bytes.",
    design_ref="DESIGN.md §4 C12",
    technique="CBMC bounded symbolic execution of real I/O retry loops over nondeterministic syscall models (all split schedules), SAT",
)
