"""C01: packing fidelity - per-layer write->read round trips and representability limits."""
OBLIGATIONS = []
OBLIGATIONS.append(dict(name="id_table_limit_fits_id_count", harness="harness/C01_idlimit.c", sources=[],
    included_sources=["lib/sqfs/src/id_table.c"], instrument=[["--havoc-loops"]], unwind=2, tiers=["quick", "thorough"], timeout=300,
    reach=["appended", "refused"], functions=["sqfs_id_table_id_to_index (lib/sqfs/src/id_table.c)", "array_append"],
    bound="table with any number of ids 0..65535 (inductive invariant), any new id; search loop over-approximated by goto-instrument --havoc-loops"))
OBLIGATIONS.append(dict(name="inode_make_extended_all_types", harness="harness/C01_inode.c", sources=["lib/sqfs/src/inode.c", "lib/util/src/alloc.c"],
    defines=dict(MODE=1), unwind=4, tiers=["quick", "thorough"], timeout=300, reach=["done"],
    functions=["sqfs_inode_make_extended, sqfs_inode_make_basic, sqfs_inode_get_xattr_index, sqfs_inode_get_file_size, sqfs_inode_get_file_block_start (lib/sqfs/src/inode.c)"],
    bound="all 7 basic inode types, every field symbolic"))
INO = {1: "dir", 2: "file", 3: "slink", 4: "bdev", 6: "fifo", 9: "ext_file", 10: "ext_slink", 11: "ext_bdev", 13: "ext_fifo"}
def irt(t, nw, tl, tiers):
    sizes = sorted(set([64, 64 + 4 * nw, 64 + tl + 1]))
    return dict(name="inode_roundtrip_%s" % INO[t], harness="harness/C01_inode.c",
        sources=["lib/sqfs/src/inode.c", "lib/sqfs/src/write_inode.c", "lib/sqfs/src/read_inode.c", "lib/util/src/alloc.c"], pre_include=["stubs/vp_alloc_sizes.h"],
        defines=dict(MODE=2, ITYPE=t, NW=nw, TL=tl, VP_ALLOC_SIZES=",".join(str(x) for x in sizes)), unwind=50, unwindset={"write_block_sizes.0": nw + 1, "read_inode_file.0": nw + 1,
        "read_inode_file_ext.0": nw + 1, "vp_calloc.0": 5}, tiers=tiers, timeout=(400 if t != 9 else 3000), reach=["done"],
        functions=["sqfs_meta_writer_write_inode, write_block_sizes (lib/sqfs/src/write_inode.c)", "sqfs_meta_reader_read_inode (lib/sqfs/src/read_inode.c)"],
        bound="inode type %s, every field symbolic, %d block-size words / %d target bytes" % (INO[t], nw, tl))
OBLIGATIONS += [irt(1, 0, 0, ["quick", "thorough"]), irt(2, 1, 0, ["quick", "thorough"]), irt(3, 0, 2, ["quick", "thorough"]), irt(9, 1, 0, ["thorough"]),
                irt(4, 0, 0, ["thorough"]), irt(6, 0, 0, ["thorough"]), irt(10, 0, 2, ["thorough"]), irt(11, 0, 0, ["quick", "thorough"]), irt(13, 0, 0, ["quick", "thorough"])]

OBLIGATIONS.append(dict(name="dir_inode_thresholds", harness="harness/C03_dirinode.c", sources=["lib/util/src/alloc.c", "lib/util/src/array.c"],
    included_sources=["lib/sqfs/src/dir_writer.c"], pre_include=["stubs/vp_alloc_sizes.h"], defines=dict(VP_ALLOC_SIZES="64"), unwind=4, tiers=["quick", "thorough"], timeout=200,
    reach=["basic", "extended"], functions=["sqfs_dir_writer_create_inode (lib/sqfs/src/dir_writer.c)"],
    bound="any listing size < 2^32-16, any entry count, hard link count, xattr index, parent, position (no directory index entries)"))
def ser(kind, tiers):
    nm = {1: "dir", 2: "file", 3: "symlink", 4: "device", 5: "ipc"}[kind]
    return dict(name="serialize_node_%s" % nm, harness="harness/C13_serialize.c", sources=["lib/sqfs/src/inode.c", "lib/util/src/alloc.c"],
        included_sources=["lib/common/src/writer/serialize_fstree.c"], pre_include=["stubs/vp_alloc_sizes.h"], defines=dict(dict(KIND=kind, VP_ALLOC_SIZES="64,66"), **({"PERM": "04751"} if kind <= 3 else {})), unwind=10, leak=True, tiers=tiers, timeout=300,
        fp_map={"get_size": ["get_size_stub"]}, reach=["success", "failure"],
        functions=["sqfs_serialize_fstree, serialize_tree_node, write_dir_entries, tree_node_to_inode (lib/common/src/writer/serialize_fstree.c)",
                   "sqfs_inode_set_xattr_index, sqfs_inode_make_basic, sqfs_inode_make_extended (lib/sqfs/src/inode.c)"],
        bound="one tree node (%s) with %s, symbolic ids, times, link count, xattr index; every step of the serialiser may fail" % (nm, "permission bits 04751" if kind <= 3 else "all 4096 permission bit values"))
OBLIGATIONS += [ser(k, ["quick", "thorough"]) for k in (1, 2, 3, 4, 5)]
OBLIGATIONS.append(dict(name="tar2sqfs_process_tarball_n1", harness="harness/C13_tarball.c", sources=[], included_sources=["bin/tar2sqfs/src/process_tarball.c"],
    incdirs=["bin/tar2sqfs/src"], defines=dict(NENT=1), unwind=6, leak=True, tiers=["quick", "thorough"], timeout=300,
    fp_map={"destroy": ["dtor_in", "dtor_out"], "flush": ["flush_stub"], "next": ["it_next"], "read_link": ["it_read_link"], "open_file_ro": ["it_open_file_ro"], "read_xattr": ["it_read_xattr"]},
    reach=["success", "failure", "root"],
    functions=["process_tarball, create_node_and_repack_data, set_root_attribs, copy_xattr, write_file (bin/tar2sqfs/src/process_tarball.c)"],
    bound="1 archive entry of symbolic kind (file, directory, symlink, hard link, device; root or named), any 64 bit time stamp, 0..2 xattrs, every step may fail; no --root-becomes"))
def fe(bs, sizes, tiers):
    napp = len(sizes)
    return dict(name="frontend_block_split_bs%d_%s" % (bs, "_".join(str(x) for x in sizes)), harness="harness/C01_frontend.c", sources=["lib/sqfs/src/inode.c", "lib/util/src/alloc.c"],
        included_sources=["lib/sqfs/src/block_processor/frontend.c"], incdirs=["lib/sqfs/src/block_processor"], defines=dict(BS=bs, NAPP=napp, SIZES=",".join(str(x) for x in sizes)), unwind=2 * bs + 6, unwindset={"get_new_block.0": 1},
        tiers=tiers, timeout=300, fp_map={"submit": ["submit_stub"], "get_status": ["status_stub"]}, reach=["failed"], allow_unreached=True,
        functions=["sqfs_block_processor_begin_file, sqfs_block_processor_append, sqfs_block_processor_end_file, get_new_block, add_sentinel_block, enqueue_block (lib/sqfs/src/block_processor/frontend.c)"],
        bound="block size scaled to %d bytes, a file delivered in appends of %s bytes (content symbolic), any user flags, no back-pressure, submit may fail" % (bs, "+".join(str(x) for x in sizes)))
_FE_Q = [(1, 1), (2, 1), (1, 2), (2, 3), (4,)]
# three-append shapes and (3, 1) exceeded the 16 GB limit in the thorough sweep and are not registered
_FE_T = [(a, b) for a in (1, 2, 3, 4) for b in (1, 2, 3, 4) if a + b <= 5 and (a, b) not in _FE_Q and (a, b) != (3, 1)] + [(5,), (3,)]
OBLIGATIONS += [fe(2, s, ["quick", "thorough"]) for s in _FE_Q] + [fe(2, s, ["thorough"]) for s in _FE_T] + [fe(3, (2, 2), ["thorough"]), fe(3, (3, 4), ["thorough"]), fe(3, (1, 5), ["thorough"])]
import itertools as _it
def dirrt(lens, tiers, timeout=400):
    ne = len(lens); nl = max(lens)
    L = list(lens) + [1] * (4 - ne)
    inode_sizes = set()
    for starts in _it.product((0, 1), repeat=ne - 1):
        st = (1,) + starts
        inode_sizes.add(64 + sum(12 + lens[i] for i in range(ne) if st[i]))
    sizes = sorted(set([32 + l for l in lens] + [32, 64] + [8 + l + 1 for l in lens]) | inode_sizes)
    return dict(name="dir_write_read_roundtrip_len%s" % "".join(str(l) for l in lens), harness="harness/C01_dirroundtrip.c",
        sources=["lib/sqfs/src/readdir.c", "lib/util/src/alloc.c", "lib/util/src/array.c"], included_sources=["lib/sqfs/src/dir_writer.c"],
        pre_include=["stubs/vp_alloc_sizes.h"], defines=dict(NE=ne, NL=nl, L0=L[0], L1=L[1], L2=L[2], L3=L[3], VP_ALLOC_SIZES=",".join(str(x) for x in sizes)),
        unwind=max(12 + nl + 2, len(sizes) + 2), unwindset={'sqfs_dir_writer_end.0': ne + 1, 'sqfs_dir_writer_end.1': ne + 1, 'get_conseq_entry_count.0': ne + 1,
                   'writer_reset.0': 2, 'writer_reset.1': 2, 'sqfs_dir_writer_create_inode.0': ne + 1, 'sqfs_dir_writer_create_inode.1': ne + 1}, tiers=tiers, timeout=timeout,
        reach=["roundtrip"], functions=["sqfs_dir_writer_begin/add_entry/end/create_inode (lib/sqfs/src/dir_writer.c)", "sqfs_readdir_state_init, sqfs_meta_reader_readdir, sqfs_meta_reader_read_dir_header, sqfs_meta_reader_read_dir_ent (lib/sqfs/src/readdir.c)"],
        bound="%d entries with name lengths %s (name bytes symbolic), symbolic inode numbers, inode references, types; listing in one metadata block" % (ne, list(lens)))
OBLIGATIONS += [dirrt((1,), ["quick", "thorough"]), dirrt((2, 1), ["quick", "thorough"]), dirrt((1, 2, 1), ["thorough"], 2400)]
def xid(nb, meta, tiers):
    return dict(name="xattr_id_table_locations_nb%d_m%d" % (nb, meta), harness="harness/C03_xattrid.c", sources=["lib/util/src/alloc.c"], included_sources=["lib/sqfs/src/xattr/xattr_writer_flush.c"],
        incdirs=["lib/sqfs/src/xattr", "."], pre_include=["stubs/vp_pre_meta.h"], defines=dict(NB=nb, VP_META=meta), unwind=nb + 3, tiers=tiers, timeout=300,
        reach=["written", "io_error"], functions=["write_id_table, alloc_location_table (lib/sqfs/src/xattr/xattr_writer_flush.c)"],
        bound="%d xattr sets, metadata block size scaled to %d bytes (%d id entries per block), symbolic block address steps, append may fail" % (nb, meta, meta // 16))
OBLIGATIONS += [xid(1, 32, ["quick", "thorough"]), xid(2, 32, ["quick", "thorough"]), xid(3, 32, ["quick", "thorough"]), xid(4, 32, ["thorough"]), xid(3, 48, ["thorough"])]
def namelen(n, tiers):
    return dict(name="dir_entry_name_length_%d" % n, harness="harness/C03_namelen.c", sources=["lib/util/src/alloc.c", "lib/util/src/array.c"], included_sources=["lib/sqfs/src/dir_writer.c"],
        defines=dict(NAMELEN=n), unwind=n + 3, tiers=tiers, timeout=300, reach=["accepted" if n <= 256 else "refused"],
        functions=["sqfs_dir_writer_add_entry (lib/sqfs/src/dir_writer.c)"], bound="a name of exactly %d bytes" % n)
OBLIGATIONS += [namelen(256, ["quick", "thorough"]), namelen(257, ["quick", "thorough"])]
OBLIGATIONS.append(dict(name="tree_node_values_fit_or_refused", harness="harness/C01_mknode.c", sources=["lib/util/src/canonicalize_name.c"], included_sources=["lib/fstree/src/fstree.c"],
    unwind=6, tiers=["quick", "thorough"], timeout=300, reach=["created", "refused"], functions=["mknode, insert_sorted (lib/fstree/src/fstree.c)"],
    bound="one entry (file, directory, character/block device, fifo) with symbolic 64 bit uid, gid, device number and time stamp"))
OBLIGATIONS.append(dict(name="xattr_scan_keeps_every_attribute", harness="harness/C01_xattrscan.c", sources=[], included_sources=["bin/gensquashfs/src/apply_xattr.c"],
    incdirs=["bin/gensquashfs/src"], defines=dict(NK=2), unwind=8, leak=True, tiers=["quick", "thorough"], timeout=300, reach=["scanned", "failed"],
    functions=["xattr_from_path (bin/gensquashfs/src/apply_xattr.c)"], bound="a file with 2 attributes, value lengths 0..2 and value bytes symbolic, llistxattr/lgetxattr/the writer may fail"))
OBLIGATIONS.append(dict(name="packfile_keywords", harness="harness/C01_packfile.c",
    sources=["lib/util/src/parse_int.c", "lib/util/src/canonicalize_name.c", "lib/util/src/split_line.c", "lib/util/src/alloc.c"], stubs=["stubs/vp_ctype.c", "stubs/vp_sysmacros.c"],
    included_sources=["bin/gensquashfs/src/fstree_from_file.c"], incdirs=["bin/gensquashfs/src"], unwind=12, tiers=["quick", "thorough"], timeout=300, reach=["done"],
    fp_map={"callback": ["add_generic", "add_device", "add_file"]},
    functions=["handle_line, add_generic, add_device, add_file, file_list_hooks (bin/gensquashfs/src/fstree_from_file.c)", "parse_uint, parse_uint_oct", "canonicalize_name"],
    bound="every keyword of the pack file syntax (symbolic choice) with a well-formed line; fields concrete"))

ASSUMPTIONS = ["linear id search replaced by its havoc over-approximation (goto-instrument --havoc-loops)"]
OUTSIDE = ["the four compressor libraries", "CLI option parsing, real file I/O", "whole-tool gensquashfs -> rdsquashfs runs (decomposed into per-layer obligations, composition argued in DESIGN.md)"]
META = dict(
    text="Bounded model checking of writer and reader of each on-disk layer composed in one query (round trip = identity for all field values within the bound), plus "
         "representability limits (id count) and the pack-file keyword table; layers are connected by shared stream stubs.",
    note="Trusted: stream/codec stubs, scaled block sizes, composition argument across layers.",
    design_ref="DESIGN.md §4 C01",
    technique="CBMC bounded symbolic execution of real writer+reader pairs composed (round trip), SAT",
)
META["text"] += " Also decided: the tree-node-to-inode mapping of the serialiser per node kind, the front end's block splitting (blocks concatenated = bytes appended), the directory writer -> reader round trip, and tar2sqfs' entry handling (time stamp clamp, root attributes)."
