"""C03: on-disk invariants of everything the writers produce."""
OBLIGATIONS = []
import itertools
def dirw(lens, meta, tiers, timeout=300):
    ne = len(lens); nl = max(lens)
    L = list(lens) + [1] * (4 - ne)
    # allocation sizes that occur: entry = 32 + len, index cell = 32, inode = 64 + sum over headers (12 + len)
    inode_sizes = set()
    for starts in itertools.product((0, 1), repeat=ne - 1):
        st = (1,) + starts
        inode_sizes.add(64 + sum(12 + lens[i] for i in range(ne) if st[i]))
    sizes = sorted(set([32 + l for l in lens] + [32]) | inode_sizes)
    return dict(name="dir_listing_len%s_m%d" % ("".join(str(l) for l in lens), meta), harness="harness/C03_dir.c", sources=["lib/util/src/alloc.c", "lib/util/src/array.c"],
        included_sources=["lib/sqfs/src/dir_writer.c"], pre_include=["stubs/vp_pre_meta.h", "stubs/vp_alloc_sizes.h"],
        defines=dict(NE=ne, NL=nl, VP_META=meta, L0=L[0], L1=L[1], L2=L[2], L3=L[3], VP_ALLOC_SIZES=",".join(str(x) for x in sizes)),
        unwind=max(12 + nl + 2, len(sizes) + 2), unwindset={'sqfs_dir_writer_end.0': ne + 1, 'sqfs_dir_writer_end.1': ne + 1, 'get_conseq_entry_count.0': ne + 1,
                   'writer_reset.0': 2, 'writer_reset.1': 2, 'sqfs_dir_writer_create_inode.0': ne + 1, 'sqfs_dir_writer_create_inode.1': ne + 1}, tiers=tiers, timeout=timeout,
        reach=(["several_headers", "one_header"] if ne > 1 else []) + ["basic_dir_inode", "ext_dir_inode"],
        functions=["sqfs_dir_writer_begin/add_entry/end, get_conseq_entry_count, add_header, sqfs_dir_writer_create_inode (lib/sqfs/src/dir_writer.c)"],
        bound="%d entries with name lengths %s (name bytes symbolic), symbolic inode numbers, inode references, types, xattr index, parent; metadata block size scaled to %d "
              "with a symbolic start offset (block crossings occur); listing decoded by an independent parser" % (ne, list(lens), meta))
OBLIGATIONS += [dirw((1,), 24, ["quick", "thorough"]), dirw((2,), 24, ["quick", "thorough"]), dirw((1, 1), 32, ["quick", "thorough"]), dirw((2, 1), 32, ["quick", "thorough"]),
                dirw((1, 2, 1), 48, ["thorough"], 2400)]
# three-entry listings cost 15..45 min each (8 shapes measured, all pass); four shapes are registered so that the thorough command stays around half an hour
for lens in ((1, 1, 1), (2, 1, 2), (2, 2, 1)):
    OBLIGATIONS.append(dirw(lens, 48, ["thorough"], 2400))

OBLIGATIONS.append(dict(name="dir_header_max_256_entries", harness="harness/C03_dirlimit.c", sources=["lib/util/src/alloc.c", "lib/util/src/array.c"],
    included_sources=["lib/sqfs/src/dir_writer.c"], defines=dict(NENT=258), unwind=260, flags=["--max-field-sensitivity-array-size", "300"], tiers=["quick", "thorough"], timeout=600, mem_gb=24, reach=["limit_reached"],
    functions=["get_conseq_entry_count (lib/sqfs/src/dir_writer.c)"],
    bound="258 entries sharing one inode block, consecutive inode numbers, 1-byte names, production metadata block size; start offset, block address and inode number base symbolic"))
OBLIGATIONS.append(dict(name="dir_inode_thresholds", harness="harness/C03_dirinode.c", sources=["lib/util/src/alloc.c", "lib/util/src/array.c"],
    included_sources=["lib/sqfs/src/dir_writer.c"], pre_include=["stubs/vp_alloc_sizes.h"], defines=dict(VP_ALLOC_SIZES="64"), unwind=4, tiers=["quick", "thorough"], timeout=200,
    reach=["basic", "extended"], functions=["sqfs_dir_writer_create_inode (lib/sqfs/src/dir_writer.c)"],
    bound="any listing size < 2^32-16, any entry count, hard link count, xattr index, parent, position (no directory index entries)"))
def comp(kind, tiers):
    nm = {1: "lz4", 2: "zstd", 3: "gzip", 4: "xz"}[kind]
    return dict(name="compressor_contract_%s" % nm, harness="harness/C03_comp.c", sources=[], included_sources=["lib/sqfs/src/comp/%s.c" % nm],
        defines=dict(KIND=kind, CAP=8), unwind=(16 if kind >= 3 else 10), tiers=tiers, timeout=200, reach=["compressed", "not_smaller", "uncompress"] + (["error"] if kind >= 2 else []),
        functions=["%s_comp_block, %s_uncomp_block (lib/sqfs/src/comp/%s.c)" % (nm, nm, nm)],
        bound="input size 1..8, output capacity 0..8, the codec library returns ANY value its documentation allows (bytes written <= capacity, 0, or an error)")
OBLIGATIONS += [comp(1, ["quick", "thorough"]), comp(2, ["quick", "thorough"]), comp(3, ["quick", "thorough"]), comp(4, ["quick", "thorough"])]

def metaw(m, a, napp, tiers):
    return dict(name="meta_writer_blocks_m%d_a%d_n%d" % (m, a, napp), harness="harness/C03_metaw.c", sources=[], included_sources=["lib/sqfs/src/meta_writer.c"],
        pre_include=["stubs/vp_pre_meta.h"], defines=dict(VP_META=m, A=a, NAPP=napp, VP_CMP_MAXOUT=m), unwind=max(m + 4, a + 2, 10),
        unwindset={"vp_cmp_init.0": 5, "vp_cmp_init.1": 5}, tiers=tiers, timeout=300,
        fp_map={'write_at': ['vp_file_write_at'], 'get_size': ['vp_file_get_size'], 'do_block': ['cw_do_block']},
        reach=["uncompressed_block", "compressed_block", "compressor_error"] + (["two_blocks"] if a * napp > m else []),
        functions=["sqfs_meta_writer_append, sqfs_meta_writer_flush, write_block, sqfs_meta_write_write_to_file, sqfs_meta_writer_get_position (lib/sqfs/src/meta_writer.c)"],
        bound="%d appends of 0..%d symbolic bytes then flush, metadata block size scaled to %d, KEEP_IN_MEMORY symbolic, compressor returns any contract-conforming value" % (napp, a, m))
OBLIGATIONS += [metaw(4, 3, 2, ["quick", "thorough"]), metaw(4, 5, 2, ["thorough"]), dict(metaw(3, 3, 3, ["thorough"]), timeout_thorough=2700)]  # 865 s when it passed, 900 s limit hit under load

OBLIGATIONS.append(dict(name="fragment_block_always_stored_bs4", harness="harness/C17_fragblock.c", sources=["lib/sqfs/src/inode.c", "lib/util/src/is_memory_zero.c", "lib/util/src/alloc.c"],
    included_sources=["lib/sqfs/src/block_processor/block_processor.c", "lib/sqfs/src/block_processor/backend.c"], incdirs=["lib/sqfs/src/block_processor"],
    defines=dict(BS=4), unwind=8, tiers=["quick", "thorough"], timeout=300, fp_map={"do_block": ["cmp_none"], "write_data_block": ["wr_write"]},
    reach=["sparse_tail", "zero_nosparse_tail", "data_tail"],
    functions=["process_block (block_processor.c)", "process_completed_fragment, process_completed_block, set_block_size (lib/sqfs/src/block_processor/backend.c)"],
    bound="one tail-end fragment of 1..4 symbolic bytes with symbolic nosparse / dont_compress flags, no fragment table, then completion of the fragment block it opened"))
def xid(nb, meta, tiers):
    return dict(name="xattr_id_table_locations_nb%d_m%d" % (nb, meta), harness="harness/C03_xattrid.c", sources=["lib/util/src/alloc.c"], included_sources=["lib/sqfs/src/xattr/xattr_writer_flush.c"],
        incdirs=["lib/sqfs/src/xattr", "."], pre_include=["stubs/vp_pre_meta.h"], defines=dict(NB=nb, VP_META=meta), unwind=nb + 3, tiers=tiers, timeout=300,
        reach=["written", "io_error"], functions=["write_id_table, alloc_location_table (lib/sqfs/src/xattr/xattr_writer_flush.c)"],
        bound="%d xattr sets, metadata block size scaled to %d bytes (%d id entries per block), symbolic block address steps, append may fail" % (nb, meta, meta // 16))
OBLIGATIONS += [xid(1, 32, ["quick", "thorough"]), xid(2, 32, ["quick", "thorough"]), xid(3, 32, ["quick", "thorough"]), xid(4, 32, ["thorough"]), xid(3, 48, ["thorough"])]

def namelen(n, tiers):
    return dict(name="dir_entry_name_length_%d" % n, harness="harness/C03_namelen.c", sources=["lib/util/src/alloc.c", "lib/util/src/array.c"], included_sources=["lib/sqfs/src/dir_writer.c"],
        defines=dict(NAMELEN=n), unwind=n + 3, tiers=tiers, timeout=300, reach=["accepted" if n <= 256 else "refused"],
        functions=["sqfs_dir_writer_add_entry (lib/sqfs/src/dir_writer.c)"], bound="a name of exactly %d bytes" % n)
OBLIGATIONS += [namelen(256, ["quick", "thorough"]), namelen(257, ["quick", "thorough"])]

ASSUMPTIONS = ["codec libraries (liblz4, libzstd) replaced by contract stubs that return any documented value",
               "metadata writer replaced by a recording stub with a position model (offset wraps at the scaled block size, block address advances by 3..M+2)",
               "inode references < 2^48 and block positions < 2^40"]
OUTSIDE = ["directories with more than 4 entries in one query (the 256-entry limit is exercised by the thorough-tier obligation when present)", "codec libraries"]
META = dict(
    text="Bounded model checking of the real writers with their output decoded by an independent in-harness parser written from doc/format.adoc: for all entry "
         "names, inode numbers/references and positions within the bound, every emitted structure satisfies the format invariants other readers rely on.",
    note="Trusted: the in-harness decoders, recording stubs, scaled metadata block size.",
    design_ref="DESIGN.md §4 C03",
    technique="CBMC bounded symbolic execution of real writer code, output checked by an independent format decoder, SAT",
)
META["text"] += ' Block compressor contract now also for gzip (strategy search) and xz (filter search); fragment blocks are always stored.'
