"""C02: determinism - image bytes independent of threads, backlog, schedule, environment."""
OBLIGATIONS = []
def sp(n, tiers):
    return dict(name="serial_pool_fifo_contract_ops%d" % n, harness="harness/C02_serialpool.c", sources=[], included_sources=["lib/util/src/threadpool_serial.c"],
        defines=dict(NOPS=n), unwind=n + 2, tiers=tiers, timeout=300, reach=["done", "several_items", "failure"],
        fp_map={"fun": ["cb"], "submit": ["submit"], "dequeue": ["dequeue"], "get_status": ["get_status"], "set_worker_ptr": ["set_worker_ptr"]},
        functions=["submit, dequeue, get_status, set_worker_ptr, thread_pool_create_serial (lib/util/src/threadpool_serial.c)"],
        bound="every script of %d operations (each symbolically submit or dequeue), failing item position symbolic" % n)
OBLIGATIONS += [sp(4, ["quick", "thorough"]), sp(6, ["thorough"])]
OBLIGATIONS.append(dict(name="source_date_epoch_pure", harness="harness/C02_epoch.c", sources=["lib/util/src/source_date_epoch.c"], stubs=["stubs/vp_ctype.c"],
    defines=dict(N=4), unwind=20, tiers=["quick", "thorough"], timeout=200, reach=["done"],
    functions=["get_source_date_epoch (lib/util/src/source_date_epoch.c)"], bound="every environment string of <= 4 bytes (or unset)"))
def be(mode, np, tiers):
    return dict(name=("io_queue_sorted_np%d" % np) if mode == 1 else "sequence_numbering_rule", harness="harness/C02_backend.c", sources=["lib/sqfs/src/inode.c"],
        included_sources=["lib/sqfs/src/block_processor/backend.c"], defines=dict(MODE=mode, NP=np), unwind=np + 3, unwindset={"set_block_size.0": 3}, tiers=tiers, timeout=300,
        reach=["done"] if mode == 1 else ["fragment_block_keeps_number", "numbered_at_dequeue"],
        fp_map={"dequeue": ["pool_dequeue"], "get_status": ["pool_status"], "write_data_block": ["wr_write"]},
        functions=["store_io_block (lib/sqfs/src/block_processor/backend.c)"] if mode == 1 else ["dequeue_block, store_io_block, process_completed_block (lib/sqfs/src/block_processor/backend.c)"],
        bound=("%d blocks with arbitrary distinct sequence numbers in arbitrary arrival order" % np) if mode == 1 else
              "one block coming back from the pool (data / fragment block / manual submission symbolic), arbitrary sequence counters and stale number in the block")
OBLIGATIONS += [be(1, 3, ["quick", "thorough"]), be(1, 4, ["thorough"]), be(2, 2, ["quick", "thorough"])]
FORBIDDEN = ["time", "gettimeofday", "clock_gettime", "clock", "localtime", "localtime_r", "gmtime", "gmtime_r", "mktime", "strftime", "rand", "random", "srand", "srandom", "rand_r",
             "drand48", "lrand48", "getpid", "getppid", "getuid", "geteuid", "getgid", "getegid", "setlocale", "getenv", "secure_getenv", "umask", "getcwd", "gethostname", "uname",
             "sched_getaffinity", "sysconf", "get_nprocs"]
def cg(tool, tiers):
    return dict(name="no_ambient_input_%s" % tool, kind="callgraph",
        source_globs=["bin/%s/src/*.c" % tool, "lib/common/src/*.c", "lib/common/src/writer/*.c", "lib/fstree/src/*.c", "lib/util/src/*.c", "lib/sqfs/src/*.c",
                      "lib/sqfs/src/*/*.c", "lib/xfrm/src/*.c", "lib/tar/src/*.c", "lib/compat/src/*.c"],
        exclude=r"w32|win32|comp_lzo|path_to_windows|mempool", incdirs=["bin/%s/src" % tool], defines={"NO_CUSTOM_ALLOC": None, "WITH_SELINUX": None},
        forbidden=FORBIDDEN, allowed_edges=[["get_source_date_epoch", "getenv"], ["os_get_num_jobs", "sched_getaffinity"]],
        message="C02: the packer reaches a source of ambient input (clock, randomness, process/user identity, locale, environment)",
        tiers=tiers, functions=["whole %s program: call graph reachable from main" % tool],
        bound="static: every function reachable from main in the goto binary linked from all sources of %s (function pointers over-approximated by signature)" % tool)
OBLIGATIONS += [cg("gensquashfs", ["quick", "thorough"]), cg("tar2sqfs", ["quick", "thorough"])]

ASSUMPTIONS = [
    "thread pool contract (FIFO, exactly once, sticky failure) for the threaded implementation is C09; here the serial reference implementation is shown to have the same contract",
    "os_get_num_jobs (sched_getaffinity) only feeds thread_pool_create(num_workers); the contract proven in C09 does not depend on the number of workers",
    "the call-graph obligations are a static analysis over the compiler IR (goto-cc + goto-instrument --reachable-call-graph), not an SMT query - labelled as such",
]
OUTSIDE = ["data races between the submitting thread and the workers on block memory (CBMC's thread model rejects this code)", "the real OS scheduler", "libc internals (locale effects inside printf etc.)"]
META = dict(
    text="The block processor observes the pool only through submit/dequeue/get_status; C09 proves the FIFO/exactly-once contract of the threaded pool for all interleavings, "
         "this check proves by bounded model checking that the serial reference pool obeys the same contract for every operation script, that the timestamp source is a pure function "
         "of SOURCE_DATE_EPOCH, and - statically on the compiler IR - that no clock, randomness, identity, locale or environment function is reachable from the packers except the two audited call sites.",
    note="Trusted: composition with C09 and with the per-function determinism of the writers; call-graph part is static analysis, not a solver verdict.",
    design_ref="DESIGN.md §4 C02",
    technique="CBMC bounded symbolic execution (serial pool contract, timestamp source) + static reachable-call-graph check on the goto binary",
)
