"""C07: untrusted tar streams / description files never crash or hang the packers."""
OBLIGATIONS = []
def hl(n, tiers):
    return dict(name="hardlink_resolution_terminates_n%d" % n, harness="harness/C07_hardlink.c", sources=["lib/fstree/src/hardlink.c"],
        defines=dict(N=n), unwind=n + 3, termination=True, tiers=tiers, timeout=(300 if n <= 3 else 3000), reach=["resolved", "rejected"],
        functions=["resolve_link, fstree_resolve_hard_links (lib/fstree/src/hardlink.c)"],
        bound="every link graph over %d nodes (each node a file, a directory or a hard link to any node incl. itself or nothing); "
              "loops must terminate within %d iterations (unwinding assertions)" % (n, n + 3))
OBLIGATIONS += [hl(2, ["quick", "thorough"]), hl(3, ["quick", "thorough"]), hl(4, ["thorough"])]
def dec(mode, n, cap, tiers):
    nm = {1: "base64", 2: "hex", 3: "parse_int"}[mode]
    return dict(name="decoder_%s_n%d" % (nm, n), harness="harness/C07_decoders.c", stubs=["stubs/vp_ctype.c"],
        sources=["lib/util/src/%s.c" % {1: "base64_decode", 2: "hex_decode", 3: "parse_int"}[mode]],
        defines=dict(MODE=mode, N=n, CAP=cap), unwind=n + 3, termination=True, tiers=tiers, timeout=300,
        reach=["ok", "fail"] + (["ok_signed"] if mode == 3 else []),
        functions=[{1: "base64_decode", 2: "hex_decode", 3: "parse_uint, parse_uint_oct, parse_int"}[mode] + " (lib/util/src)"],
        bound="every input of <= %d bytes (all byte values), output capacity 0..%d" % (n, cap))
OBLIGATIONS += [dec(1, 6, 4, ["quick", "thorough"]), dec(2, 6, 3, ["quick", "thorough"]), dec(3, 5, 0, ["quick", "thorough"]),
                dec(1, 9, 6, ["thorough"]), dec(2, 8, 4, ["thorough"]), dec(3, 8, 0, ["thorough"])]

def spl(n, tiers, timeout=300):
    return dict(name="split_line_arbitrary_n%d" % n, harness="harness/C07_splitline.c", sources=[], included_sources=["lib/util/src/split_line.c"],
        defines=dict(N=n), unwind=n + 3, unwindset={"strchr.0": 4}, termination=True, tiers=tiers, timeout=timeout, reach=["ok", "rejected"],
        functions=["split_line, append_arg, is_sep (lib/util/src/split_line.c)"], bound="every line of <= %d bytes (all byte values), separators space and tab" % n)
OBLIGATIONS += [spl(5, ["quick", "thorough"]), spl(8, ["thorough"], 1800)]

ASSUMPTIONS = ["ctype classification = C locale (stubs/vp_ctype.c)", "path lookup replaced by a symbolic graph (superset of all archives / pack files)"]
OUTSIDE = ["zlib/xz/zstd/bzip2 on corrupt streams", "glob.c against a real directory"]
META = dict(
    text="Bounded model checking of the real parsers and resolvers on unconstrained input with memory-safety checks and unwinding assertions: no out-of-bounds access, "
         "no crash, and every loop terminates within the stated bound, for all inputs inside the bound (byte strings, link graphs).",
    note="Trusted: stubs named in evidence. Codec libraries and the tools' main() outside.",
    design_ref="DESIGN.md §4 C07",
    technique="CBMC bounded symbolic execution of real parser/resolver code over symbolic inputs, unwinding assertions as termination check, SAT",
)
