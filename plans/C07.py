"""C07: untrusted tar streams / description files never crash or hang the packers."""
OBLIGATIONS = []
def hl(n, tiers):
    return dict(name="hardlink_resolution_terminates_n%d" % n, harness="harness/C07_hardlink.c", sources=["lib/fstree/src/hardlink.c"],
        defines=dict(N=n), unwind=n + 3, termination=True, tiers=tiers, timeout=(300 if n <= 3 else 3000), reach=["resolved", "rejected"],
        functions=["resolve_link, fstree_resolve_hard_links (lib/fstree/src/hardlink.c)"],
        bound="every link graph over %d nodes (each node a file, a directory or a hard link to any node incl. itself or nothing); "
              "loops must terminate within %d iterations (unwinding assertions)" % (n, n + 3))
OBLIGATIONS += [hl(2, ["quick", "thorough"]), hl(3, ["quick", "thorough"]), hl(4, ["thorough"])]
def dec(mode, n, cap, tiers):
    nm = {1: "base64", 2: "hex", 3: "parse_int"}[mode]
    return dict(name="decoder_%s_n%d" % (nm, n), harness="harness/C07_decoders.c", stubs=["stubs/vp_ctype.c"],
        sources=["lib/util/src/%s.c" % {1: "base64_decode", 2: "hex_decode", 3: "parse_int"}[mode]],
        defines=dict(MODE=mode, N=n, CAP=cap), unwind=n + 3, termination=True, tiers=tiers, timeout=300,
        reach=["ok", "fail"] + (["ok_signed"] if mode == 3 else []),
        functions=[{1: "base64_decode", 2: "hex_decode", 3: "parse_uint, parse_uint_oct, parse_int"}[mode] + " (lib/util/src)"],
        bound="every input of <= %d bytes (all byte values), output capacity 0..%d" % (n, cap))
OBLIGATIONS += [dec(1, 6, 4, ["quick", "thorough"]), dec(2, 6, 3, ["quick", "thorough"]), dec(3, 5, 0, ["quick", "thorough"]),
                dec(1, 9, 6, ["thorough"]), dec(2, 8, 4, ["thorough"]), dec(3, 8, 0, ["thorough"])]

def spl(n, tiers, timeout=300):
    return dict(name="split_line_arbitrary_n%d" % n, harness="harness/C07_splitline.c", sources=[], included_sources=["lib/util/src/split_line.c"],
        defines=dict(N=n), unwind=n + 3, unwindset={"strchr.0": 4}, termination=True, tiers=tiers, timeout=timeout, reach=["ok", "rejected"],
        functions=["split_line, append_arg, is_sep (lib/util/src/split_line.c)"], bound="every line of <= %d bytes (all byte values), separators space and tab" % n)
OBLIGATIONS += [spl(5, ["quick", "thorough"]), spl(8, ["thorough"], 1800)]

def rdhdr(k, full, tiers, timeout=600):
    sizes = sorted(set([1, 2, 3, 101] + [a + b + 2 for a in (0, 1, 2, 100) for b in (1, 2, 155)] + [24]))
    return dict(name="tar_read_header_k%d_full%d" % (k, full), harness="harness/C07_readheader.c", sources=["lib/tar/src/cleanup.c"],
        stubs=["stubs/vp_ctype.c", "stubs/vp_sysmacros.c"], included_sources=["lib/tar/src/read_header.c"], incdirs=["lib/tar/src", "."],
        pre_include=["stubs/vp_alloc_sizes.h"], defines=dict(K=k, FULL=full, VP_ALLOC_SIZES=",".join(str(x) for x in sizes)), unwind=26,
        unwindset={"fill_str.0": 156, "fill_num.0": 13, "memset.0": 513, "strndup.0": 102, "strndup.1": 101, "strnlen.0": 160, "memcmp.0": 10, "vp_malloc.0": len(sizes) + 2, "vp_calloc.0": len(sizes) + 2,
                   "read_header.0": k + 2, "free_sparse_list.0": 3, "strlen.0": 260, "is_memory_zero.0": 520, "memcpy.0": 160},
        leak=True, tiers=tiers, timeout=timeout, fp_map={"get_filename": ["fname"]}, reach=["entry", "error", "eof"],
        functions=["read_header, decode_header, check_version, is_checksum_valid (lib/tar/src/read_header.c)", "clear_header, free_sparse_list (cleanup.c)"],
        bound="a stream of up to %d records; numeric fields, magic, version, checksum and type flag bytes all symbolic; name/linkname/prefix %s; "
              "any read may fail or come back short; PAX / long-name / sparse sub-parsers are contract stubs" % (k, {0: "short (<= 2 symbolic bytes)", 7: "completely filled (no terminator)", 1: "name filled, others short", 4: "prefix filled, others short"}[full]))
OBLIGATIONS += [rdhdr(1, 0, ["quick", "thorough"]), rdhdr(1, 7, ["thorough"]), rdhdr(1, 1, ["thorough"]), rdhdr(1, 4, ["thorough"]), rdhdr(2, 0, ["thorough"], 1200)]
OBLIGATIONS.append(dict(name="tar_iterator_record_accounting", harness="harness/C04_iterator.c", sources=[], included_sources=["lib/tar/src/iterator.c"],
    incdirs=["lib/tar/src"], unwind=6, tiers=["quick", "thorough"], timeout=300,
    fp_map={"get_buffered_data": ["base_get"], "advance_buffer": ["base_adv"], "destroy": ["base_destroy", "it_destroy"]},
    reach=["member_read", "next_entry", "io_error"],
    functions=["it_next, it_open_file_ro, strm_get_buffered_data, strm_advance_buffer, strm_destroy, drop_parent, is_sparse_region (lib/tar/src/iterator.c)"],
    bound="two consecutive members, record size any value < 2^62, the consumer reads any prefix of the member in <= 2 chunks or nothing; the archive stream hands out 1..8 bytes per call and may fail"))

OBLIGATIONS.append(dict(name="tar_iterator_sparse_member", harness="harness/C04_iterator.c", sources=[], included_sources=["lib/tar/src/iterator.c"],
    incdirs=["lib/tar/src"], defines=dict(SPARSE=1, FSMAX=10), unwind=14, tiers=["quick", "thorough"] if "C07" == "C04" else ["thorough"], timeout=600,
    fp_map={"get_buffered_data": ["base_get"], "advance_buffer": ["base_adv"], "destroy": ["base_destroy", "it_destroy"]},
    reach=["sparse_member", "io_error"],
    functions=["strm_get_buffered_data, strm_advance_buffer, is_sparse_region, it_open_file_ro (lib/tar/src/iterator.c)"],
    bound="one sparse member: real size <= 10, one mapped data region of symbolic offset and length, the archive hands out 1..8 bytes per call and may fail"))

OBLIGATIONS.append(dict(name="tar_iterator_hostile_sparse_map", harness="harness/C04_iterator.c", sources=[], included_sources=["lib/tar/src/iterator.c"],
    incdirs=["lib/tar/src"], defines=dict(HOSTILE=1, FSMAX=6), unwind=10, tiers=["quick", "thorough"], timeout=600,
    fp_map={"get_buffered_data": ["base_get"], "advance_buffer": ["base_adv"], "destroy": ["base_destroy", "it_destroy"]},
    reach=["ended", "io_error"],
    functions=["strm_get_buffered_data, strm_advance_buffer, is_sparse_region (lib/tar/src/iterator.c)"],
    bound="one member of <= 6 bytes real size with an arbitrary sparse map of 1..2 regions (any 64 bit offsets and counts), any record size"))

def pax(n, tiers, timeout=900):
    return dict(name="tar_pax_framing_n%d" % n, harness="harness/C07_pax.c", sources=["lib/tar/src/cleanup.c", "lib/util/src/parse_int.c", "lib/util/src/hex_decode.c", "lib/util/src/base64_decode.c"],
        stubs=["stubs/vp_ctype.c"], included_sources=["lib/tar/src/pax_header.c"], incdirs=["lib/tar/src", "."], defines=dict(N=n, FRAMING=1), unwind=n + 4,
        unwindset={"strcmp.0": 22, "strncmp.0": 20, "strlen.0": 20, "sqfs_xattr_list_free.0": n // 5 + 2, "free_sparse_list.0": n // 3 + 2, "read_pax_header.0": n + 2, "pax_sparse_map.0": n // 4 + 2, "find_handler.0": 16},
        leak=True, tiers=tiers, timeout=timeout, reach=["parsed", "rejected"],
        functions=["read_pax_header, find_handler, apply_handler, pax_sparse_map, pax_xattr_libarchive, urldecode (lib/tar/src/pax_header.c)", "parse_uint, parse_int (lib/util/src/parse_int.c)", "hex_decode", "base64_decode", "clear_header"],
        bound="every PAX record block of exactly %d bytes (all byte values): framing of the length-prefixed records with no key recognised; strtol is a model" % n)
OBLIGATIONS += [pax(8, ["quick", "thorough"]), pax(10, ["thorough"], 2400)]

OBLIGATIONS.append(dict(name="tar_pax_sparse_map_n5", harness="harness/C07_pax.c", sources=["lib/tar/src/cleanup.c", "lib/util/src/parse_int.c", "lib/util/src/hex_decode.c", "lib/util/src/base64_decode.c"],
    stubs=["stubs/vp_ctype.c"], included_sources=["lib/tar/src/pax_header.c"], incdirs=["lib/tar/src", "."], defines=dict(N=5, SPARSEMAP=1), unwind=9,
    unwindset={"free_sparse_list.0": 5, "pax_sparse_map.0": 5, "sqfs_xattr_list_free.0": 2}, leak=True, tiers=["quick", "thorough"], timeout=600, reach=["parsed", "rejected"],
    functions=["pax_sparse_map (lib/tar/src/pax_header.c)", "parse_uint (lib/util/src/parse_int.c)", "free_sparse_list, clear_header (cleanup.c)"],
    bound="every NUL terminated map string of up to 5 bytes (all byte values), with or without a map from an earlier record"))

OBLIGATIONS.append(dict(name="codec_wrapper_corrupt_input_gzip", harness="harness/C15_wrappers.c", sources=[], included_sources=["lib/xfrm/src/gzip.c"],
    defines=dict(KIND=1, CORRUPT=1), unwind=8, termination=True, tiers=["quick", "thorough"], timeout=300, reach=["library_error", "done"],
    functions=["process_data (lib/xfrm/src/gzip.c)"],
    bound="one decompressing process_data call: input 0..4 bytes, output space 0..4 bytes, the library may report Z_DATA_ERROR / Z_NEED_DICT / Z_MEM_ERROR without progress at any call"))

OBLIGATIONS.append(dict(name="glob_line_without_pack_directory", harness="harness/C07_glob.c", sources=["lib/util/src/split_line.c"], included_sources=["bin/gensquashfs/src/glob.c"],
    incdirs=["bin/gensquashfs/src"], unwind=10, tiers=["quick", "thorough"], timeout=300, reach=["no_packdir", "packdir"],
    functions=["glob_files (bin/gensquashfs/src/glob.c)"], bound="pack directory given or NULL, 0..1 path argument, no scan options"))

ASSUMPTIONS = ["ctype classification = C locale (stubs/vp_ctype.c)", "path lookup replaced by a symbolic graph (superset of all archives / pack files)"]
OUTSIDE = ["zlib/xz/zstd/bzip2 on corrupt streams", "glob.c against a real directory"]
META = dict(
    text="Bounded model checking of the real parsers and resolvers on unconstrained input with memory-safety checks and unwinding assertions: no out-of-bounds access, "
         "no crash, and every loop terminates within the stated bound, for all inputs inside the bound (byte strings, link graphs).",
    note="Trusted: stubs named in evidence. Codec libraries and the tools' main() outside.",
    design_ref="DESIGN.md §4 C07",
    technique="CBMC bounded symbolic execution of real parser/resolver code over symbolic inputs, unwinding assertions as termination check, SAT",
)
META["text"] += ' Inputs now include tar header records (read_header state machine), PAX record blocks (framing), sparse map strings and arbitrary sparse maps under the member stream.'
