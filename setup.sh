#!/bin/sh
# offline setup: nothing to build ahead of time (every check compiles the real
# sources from /repo with goto-cc when it runs); just verify the tools.
set -e
for t in cbmc goto-cc goto-instrument gcc python3; do
	command -v $t >/dev/null || { echo "missing tool: $t" >&2; exit 1; }
done
cbmc --version
mkdir -p "$(dirname "$0")/build" "$(dirname "$0")/evidence"
