#!/bin/sh
# usage: run_all_quick.sh [quick|thorough] [parallel-properties]
# Runs every property's check of the given tier against VP_REPO (default /repo) and regenerates every evidence file.
# Properties run P at a time (default 1 for quick = exactly what the registered commands do one after the other;
# use e.g. "thorough 4" for a sweep).  Per-property logs: build/run_<id>.log, summary: build/run_all.log
cd "$(dirname "$0")"
mkdir -p build
tier=${1:-quick}; par=${2:-1}
: > build/run_all.log
one() {
	id=$1; start=$(date +%s)
	VP_JOBS=${VP_JOBS:-$(( 16 / par ))} ./check $id --tier $tier > build/run_$id.log 2>&1
	rc=$?
	echo "$id rc=$rc $(( $(date +%s) - start ))s $(grep -c ' pass ' build/run_$id.log) pass, $(grep -c '^VIOLATION' build/run_$id.log) viol, $(grep -c 'KNOWN-FINDING' build/run_$id.log) known, $(grep -c 'BROKEN' build/run_$id.log) broken" | tee -a build/run_all.log
}
ids="C01 C02 C03 C04 C05 C06 C07 C08 C09 C10 C11 C12 C13 C14 C15 C16 C17 C18 C19"
if [ "$par" -le 1 ]; then
	for id in $ids; do one $id; done
else
	n=0
	for id in $ids; do
		one $id &
		n=$((n + 1))
		if [ $n -ge $par ]; then wait; n=0; fi
	done
	wait
fi
grep -qv "rc=0" build/run_all.log && exit 1
exit 0
