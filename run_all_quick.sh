#!/bin/sh
# regenerate every evidence file from the unchanged tree (quick tier), sequentially
cd "$(dirname "$0")"
mkdir -p build
rc_all=0
for id in C01 C02 C03 C04 C05 C06 C07 C08 C09 C10 C11 C12 C13 C14 C15 C16 C17 C18 C19; do
	start=$(date +%s)
	./check $id --tier ${1:-quick} > build/run_$id.log 2>&1
	rc=$?
	echo "$id rc=$rc $(( $(date +%s) - start ))s $(grep -c ' pass ' build/run_$id.log) pass, $(grep -c 'VIOLATION' build/run_$id.log) viol, $(grep -c 'KNOWN-FINDING' build/run_$id.log) known, $(grep -c 'BROKEN' build/run_$id.log) broken"
	[ $rc -ne 0 ] && rc_all=1
done
exit $rc_all
