/*
 * C18: canonicalize_name() against an independent component-wise
 * specification, for EVERY NUL-terminated string in a buffer of N+1 bytes
 * over all 256 byte values.
 *
 * real code: lib/util/src/canonicalize_name.c
 */
#include "vp.h"
#include <string.h>

int canonicalize_name(char *filename);

#ifndef N
#define N 4
#endif

/* ---- specification: scan components, independent of the implementation --- */
/*
 * expected output = the components of `in` (maximal runs of non-'/' bytes),
 * without empty ones and without ".", joined by single '/'.
 * refuse  <=> some component is "..".
 */
static int spec(const char in[N + 1], char out[N + 1])
{
	size_t i = 0, o = 0;
	int refuse = 0;
	int first = 1;

	while (i < N && in[i] != '\0') {
		size_t start, len;

		if (in[i] == '/') {
			++i;
			continue;
		}
		start = i;
		while (i < N && in[i] != '\0' && in[i] != '/')
			++i;
		len = i - start;

		if (len == 2 && in[start] == '.' && in[start + 1] == '.')
			refuse = 1;
		if (len == 1 && in[start] == '.')
			continue;

		if (!first)
			out[o++] = '/';
		first = 0;
		for (size_t k = 0; k < N; ++k) {
			if (k < len)
				out[o++] = in[start + k];
		}
	}
	out[o] = '\0';
	return refuse;
}

void harness(void)
{
	char in[N + 1], buf[N + 1], expect[N + 1], again[N + 1];
	int ret, refuse;
	size_t i, l0, l1;

	for (i = 0; i < N; ++i)
		in[i] = (char)ND_U8();
	in[N] = '\0';
	memcpy(buf, in, sizeof(buf));

	refuse = spec(in, expect);
	ret = canonicalize_name(buf);

	VP_ASSERT((ret != 0) == (refuse != 0),
		  "fails exactly when some component is '..'");
	VP_ASSERT(ret == 0 || ret == -1, "return value is 0 or -1");

	if (ret == 0) {
		VP_REACH("accepted");
		l0 = strlen(in);
		l1 = strlen(buf);
		VP_ASSERT(l1 <= l0, "never grows the string");
		VP_ASSERT(strcmp(buf, expect) == 0,
			  "result equals the component-wise specification");
		VP_ASSERT(buf[0] != '/', "no leading slash");
		VP_ASSERT(l1 == 0 || buf[l1 - 1] != '/', "no trailing slash");

		memcpy(again, buf, sizeof(again));
		VP_ASSERT(canonicalize_name(again) == 0,
			  "idempotent: second application succeeds");
		VP_ASSERT(strcmp(again, buf) == 0,
			  "idempotent: second application is the identity");
	} else {
		VP_REACH("refused");
	}
}
