/*
 * C17 (nosparse) / C03: a tail end that is packed as a fragment because its
 * file carries IGNORE_SPARSE ("nosparse") must really be stored: the fragment
 * block that collects it is an ordinary stored block whatever its content,
 * and finishing that block never touches the file's inode again.
 * real code: lib/sqfs/src/block_processor/block_processor.c (#included:
 *            process_block) and backend.c (#included:
 *            process_completed_fragment, process_completed_block,
 *            set_block_size, release_old_block)
 * Scenario: one tail-end fragment F (size 1..BS, data, flags symbolic) goes
 * through the worker function and the fragment collector (no fragment table,
 * DONT_DEDUPLICATE, so the hash table stays out of the picture); if it opened
 * a fragment block, that block goes through the worker function and the
 * completion handler the way sqfs_block_processor_finish() submits it.
 * env: block writer stub recording write_data_block(); compressor stub that
 *      never shrinks; xxh32 stub.
 */
#ifndef BS
#define BS 4
#endif
#include "vp.h"
#include <stdlib.h>
#include <string.h>
#include "sqfs/predef.h"
sqfs_u32 xxh32(const void *input, const size_t len) { (void)input; return (sqfs_u32)len; }
#include "lib/sqfs/src/block_processor/block_processor.c"
#define set_block_size be_set_block_size
#include "lib/sqfs/src/block_processor/backend.c"

#if !VP_CBMC
/* native replay only: referenced by code paths this scenario never takes */
int sqfs_frag_table_set(sqfs_frag_table_t *t, sqfs_u32 i, sqfs_u64 l, sqfs_u32 s) { (void)t; (void)i; (void)l; (void)s; abort(); }
int sqfs_frag_table_append(sqfs_frag_table_t *t, sqfs_u64 l, sqfs_u32 s, sqfs_u32 *i) { (void)t; (void)l; (void)s; (void)i; abort(); }
struct hash_entry *hash_table_search_pre_hashed(struct hash_table *h, sqfs_u32 hash, const void *k) { (void)h; (void)hash; (void)k; abort(); }
struct hash_entry *hash_table_insert_pre_hashed(struct hash_table *h, sqfs_u32 hash, const void *k, void *d) { (void)h; (void)hash; (void)k; (void)d; abort(); }
int enqueue_block(sqfs_block_processor_t *p, sqfs_block_t *b) { (void)p; (void)b; abort(); }
int sqfs_frag_table_lookup(sqfs_frag_table_t *t, sqfs_u32 i, sqfs_fragment_t *o) { (void)t; (void)i; (void)o; abort(); }
#endif
static unsigned writes; static sqfs_u32 w_size, w_flags;
static int wr_write(sqfs_block_writer_t *wr, void *user, sqfs_u32 size, sqfs_u32 checksum, sqfs_u32 flags, const sqfs_u8 *data, sqfs_u64 *location)
{
	(void)wr; (void)user; (void)checksum; (void)data;
	writes++; w_size = size; w_flags = flags; *location = 96;
	return 0;
}
static sqfs_s32 cmp_none(sqfs_compressor_t *c, const sqfs_u8 *in, sqfs_u32 size, sqfs_u8 *out, sqfs_u32 outsize) { (void)c; (void)in; (void)size; (void)out; (void)outsize; return 0; }

static struct { sqfs_block_t b; sqfs_u8 pad[BS]; } FW;
static struct { worker_data_t w; sqfs_u8 pad[BS]; } WK;
static sqfs_block_processor_t PROC;
static sqfs_block_writer_t WR;
static sqfs_compressor_t CMP;

void harness(void)
{
	sqfs_block_t *f = &FW.b, *fb;
	sqfs_inode_generic_t *ino;
	sqfs_u32 flags = ND_U32(), size = ND_U32(), fi = 1, fo = 1;
	int allzero = 1, ret;

	VP_ASSUME(size >= 1 && size <= BS);
	VP_ASSUME((flags & ~(SQFS_BLK_DONT_COMPRESS | SQFS_BLK_IGNORE_SPARSE | SQFS_BLK_FIRST_BLOCK | SQFS_BLK_DONT_FRAGMENT)) == 0);
	ino = calloc(1, sizeof(*ino));
	VP_ASSUME(ino != NULL);
	ino->base.type = SQFS_INODE_FILE;
	sqfs_inode_set_frag_location(ino, 0xFFFFFFFF, 0xFFFFFFFF);
	sqfs_inode_set_file_size(ino, size);
	f->flags = flags | SQFS_BLK_IS_FRAGMENT | SQFS_BLK_DONT_DEDUPLICATE;
	f->size = size; f->inode = &ino; f->index = 0;
	for (sqfs_u32 i = 0; i < BS; ++i) { f->data[i] = ND_U8(); if (i < size && f->data[i] != 0) allzero = 0; }
	CMP.do_block = cmp_none; WK.w.cmp = &CMP; WK.w.scratch_size = BS;
	WR.write_data_block = wr_write;
	PROC.wr = &WR; PROC.max_block_size = BS; PROC.backlog = 1;

	VP_ASSERT(process_block(&WK.w, f) == 0, "worker");
	ret = process_completed_fragment(&PROC, f);
	VP_ASSERT(ret == 0, "fragment accepted");

	if (allzero && !(flags & SQFS_BLK_IGNORE_SPARSE)) {
		VP_ASSERT(PROC.frag_block == NULL && ino->data.file_ext.sparse == size, "a zero tail of a file that may be sparse is recorded as sparse");
		VP_REACH("sparse_tail");
		free(ino);
		return;
	}
	/* the tail is a real fragment now */
	sqfs_inode_get_frag_location(ino, &fi, &fo);
	VP_ASSERT(PROC.frag_block == f && fi == 0 && fo == 0 && ino->base.type == SQFS_INODE_FILE, "C17: a nosparse (or non-zero) tail becomes fragment 0 at offset 0 of a new fragment block");
	fb = PROC.frag_block;
	VP_ASSERT((fb->flags & SQFS_BLK_FRAGMENT_BLOCK) && !(fb->flags & SQFS_BLK_IS_FRAGMENT), "fragment block flags");

	/* sqfs_block_processor_finish(): the open fragment block is submitted */
	PROC.frag_block = NULL;
	VP_ASSERT(process_block(&WK.w, fb) == 0, "worker on the fragment block");
	ret = process_completed_block(&PROC, fb);
	VP_ASSERT(ret == 0, "fragment block completed");

	VP_ASSERT(writes == 1 && w_size == size && !(w_flags & SQFS_BLK_IS_SPARSE),
		  "C17/C03: the fragment block is stored with all its bytes, whatever they are (a nosparse tail is never dropped as sparse)");
	VP_ASSERT(ino->base.type == SQFS_INODE_FILE && ino->payload_bytes_used == 0, "C03: completing the fragment block leaves the file's inode alone (no sparse bytes, no block list entry)");
	sqfs_inode_get_frag_location(ino, &fi, &fo);
	VP_ASSERT(fi == 0 && fo == 0, "fragment location kept");
	if (allzero) VP_REACH("zero_nosparse_tail"); else VP_REACH("data_tail");
	free(ino);
}
