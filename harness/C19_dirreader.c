/*
 * C19: copy of a directory reader: own header, own metadata readers, and a
 * DEEP copy of the inode-number cache (the rbtree is an owned container), so
 * that releasing one object cannot invalidate the other.
 * real code: lib/sqfs/src/dir_reader.c (#included: dir_reader_copy,
 *            dir_reader_destroy)
 * env: rbtree and metadata readers are contract stubs that track object
 *      identity: rbtree_copy hands out a fresh tree, rbtree_cleanup records
 *      which tree was released (releasing the same tree twice = double free
 *      in the real container), metadata reader copies are fresh objects.
 */
#include "vp.h"
#include <string.h>
#include <stdlib.h>
#include "util/rbtree.h"
#include "sqfs/meta_reader.h"
#include "sqfs/error.h"

static rbtree_node_t TREES[3];	/* identity tokens for tree roots */
static unsigned trees_used, cleaned[3], copies;
int rbtree_init(rbtree_t *t, size_t ks, size_t vs, int (*cmp)(const void *, const void *, const void *)) { memset(t, 0, sizeof(*t)); t->key_size = ks; t->value_size = vs; t->key_compare = cmp; return 0; }
int rbtree_copy(const rbtree_t *tree, rbtree_t *out)
{
	copies++;
	memcpy(out, tree, sizeof(*out));
	out->root = tree->root != NULL ? &TREES[trees_used++] : NULL;
	return 0;
}
void rbtree_cleanup(rbtree_t *t)
{
	for (int i = 0; i < 3; ++i)
		if (t->root == &TREES[i])
			cleaned[i]++;
	memset(t, 0, sizeof(*t));
}
int rbtree_insert(rbtree_t *t, const void *k, const void *v) { (void)t; (void)k; (void)v; return 0; }
rbtree_node_t *rbtree_lookup(const rbtree_t *t, const void *k) { (void)t; (void)k; return NULL; }

struct sqfs_meta_reader_t { sqfs_object_t base; int id; };
static struct sqfs_meta_reader_t MR[6];
static unsigned mr_used, mr_destroyed[6];
static void mr_destroy(sqfs_object_t *o) { mr_destroyed[((struct sqfs_meta_reader_t *)o)->id]++; }
static sqfs_object_t *mr_copy(const sqfs_object_t *o);
static sqfs_meta_reader_t *mr_new(void)
{
	struct sqfs_meta_reader_t *m = &MR[mr_used];
	m->id = mr_used++;
	m->base.refcount = 1; m->base.destroy = mr_destroy; m->base.copy = mr_copy;
	return m;
}
static sqfs_object_t *mr_copy(const sqfs_object_t *o) { (void)o; return (sqfs_object_t *)mr_new(); }
sqfs_meta_reader_t *sqfs_meta_reader_create(sqfs_file_t *f, sqfs_compressor_t *c, sqfs_u64 s, sqfs_u64 l) { (void)f; (void)c; (void)s; (void)l; return mr_new(); }

#include "lib/sqfs/src/dir_reader.c"

static void drop_reader(sqfs_dir_reader_t *r)
{
	VP_ASSERT(r->base.refcount == 1 && r->base.destroy == dir_reader_destroy, "release runs the directory reader destructor");
	dir_reader_destroy((sqfs_object_t *)r);
}

void harness(void)
{
	sqfs_dir_reader_t *a = malloc(sizeof(*a)), *b;
	int dot = ND_BOOL(), cached = ND_BOOL();
	VP_ASSUME(a != NULL);
	memset(a, 0, sizeof(*a));
	a->base.refcount = 1; a->base.destroy = dir_reader_destroy; a->base.copy = dir_reader_copy;
	a->flags = dot ? SQFS_DIR_READER_DOT_ENTRIES : 0;
	a->meta_inode = mr_new();
	a->meta_dir = mr_new();
	if (dot) {
		rbtree_init(&a->dcache, sizeof(sqfs_u32), sizeof(sqfs_u64), dcache_key_compare);
		if (cached)
			a->dcache.root = &TREES[trees_used++];	/* history: some directory inodes were loaded */
	}

	b = (sqfs_dir_reader_t *)dir_reader_copy((sqfs_object_t *)a);
	VP_ASSUME(b != NULL);
	b->base.refcount = 1;	/* sqfs_copy() */
	VP_ASSERT(b != a && b->base.destroy == dir_reader_destroy && b->base.copy == dir_reader_copy, "copy has the hooks of its kind");
	VP_ASSERT(b->meta_inode != a->meta_inode && b->meta_dir != a->meta_dir && b->meta_inode != NULL && b->meta_dir != NULL, "copy owns its own metadata readers");
	if (dot) {
		VP_ASSERT(copies == 1, "the inode cache is duplicated through the container's copy operation");
		VP_ASSERT(a->dcache.root == NULL || b->dcache.root != a->dcache.root, "C19: the inode cache is deep-copied, never shared");
	}
	if (ND_BOOL()) { drop_reader(a); drop_reader(b); VP_REACH("orig_first"); }
	else { drop_reader(b); drop_reader(a); VP_REACH("copy_first"); }
	for (int i = 0; i < 3; ++i)
		VP_ASSERT(cleaned[i] <= 1, "C19: no cache tree is released twice (original and copy can be released in either order)");
	for (int i = 0; i < 6; ++i)
		VP_ASSERT(mr_destroyed[i] == (i < (int)mr_used ? 1 : 0), "every metadata reader is released exactly once");
	if (dot && cached)
		VP_REACH("with_cache");
}
