/*
 * C05 O-3: the real inode reader on arbitrary metadata.
 *
 * real code: lib/sqfs/src/read_inode.c, lib/sqfs/src/inode.c,
 *            lib/util/src/alloc.c
 * env: metadata reader contract stub (every read returns unconstrained
 *      bytes or fails), allocation cap (stubs/vp_alloc_cap.h).
 */
#include "vp_meta_stub.h"
#include "sqfs/inode.h"
#include "sqfs/super.h"
#include "sqfs/dir.h"
#include <stdlib.h>
#include <string.h>
#include <sys/stat.h>

void harness(void)
{
	sqfs_super_t super;
	sqfs_inode_generic_t *ino = NULL;
	sqfs_u64 blk = ND_U64();
	size_t off = ND_SZ();
	unsigned log = ND_U32();
	int ret;

	memset(&super, 0, sizeof(super));
	/* what sqfs_super_read() guarantees */
	VP_ASSUME(log >= 12 && log <= 20);
	super.block_log = log;
	super.block_size = 1u << log;
	super.inode_table_start = ND_U64();

	ret = sqfs_meta_reader_read_inode(&vp_meta_obj, &super, blk, off, &ino);
	if (ret != 0) {
		/* callers (dir_iterator.c it_next, dir_reader.c resolve_path) free the
		   result pointer on their error paths: a failed read must not leave a
		   dangling pointer to an object it has already released */
		VP_ASSERT(ino == NULL, "C05: a failed inode read hands out no pointer (a released object left in *result is freed a second time by the callers)");
		VP_REACH("error");
		return;
	}
	VP_ASSERT(ino != NULL, "success yields an inode");
	VP_ASSERT(ino->payload_bytes_used <= ino->payload_bytes_available, "payload used <= available");
	VP_ASSERT(VP_R_OK(ino, sizeof(*ino) + ino->payload_bytes_available), "inode object really holds its payload");

	switch (ino->base.type) {
	case SQFS_INODE_FILE:
	case SQFS_INODE_EXT_FILE: {
		sqfs_u64 fsz;
		sqfs_u32 fi, fo;
		size_t cnt = sqfs_inode_get_file_block_count(ino);
		sqfs_inode_get_file_size(ino, &fsz);
		sqfs_inode_get_frag_location(ino, &fi, &fo);
		VP_ASSERT(cnt * sizeof(sqfs_u32) == ino->payload_bytes_used, "block list length matches payload");
		VP_ASSERT(cnt == fsz / super.block_size + ((fsz % super.block_size) != 0 && (fi == 0xFFFFFFFF || fo == 0xFFFFFFFF) ? 1 : 0),
			  "block count follows from file size and fragment presence");
		VP_ASSERT(S_ISREG(ino->base.mode), "mode type bits forced to regular file");
		VP_REACH("file");
		break;
	}
	case SQFS_INODE_SLINK:
	case SQFS_INODE_EXT_SLINK:
		VP_ASSERT(ino->payload_bytes_used == ino->data.slink.target_size, "symlink payload is the target");
		VP_ASSERT(((char *)ino->extra)[ino->data.slink.target_size] == '\0', "symlink target is NUL terminated");
		VP_ASSERT(S_ISLNK(ino->base.mode), "mode type bits forced to symlink");
		VP_REACH("slink");
		break;
	case SQFS_INODE_EXT_DIR: {
		sqfs_dir_index_t *ent = NULL;
		size_t idx = ND_SZ();
		int r;
		VP_ASSUME(idx <= 2);
		VP_ASSERT(S_ISDIR(ino->base.mode), "mode type bits forced to directory");
#ifdef VP_NO_UNPACK
		r = -1; (void)idx;
#else
		r = sqfs_inode_unpack_dir_index_entry(ino, &ent, idx);
#endif
		if (r == 0) {
			VP_ASSERT(ent != NULL && VP_R_OK(ent, sizeof(*ent) + ent->size + 2), "unpacked index entry holds its name");
			VP_REACH("dir_index");
		}
		VP_REACH("dir_ext");
		break;
	}
	case SQFS_INODE_DIR:
		VP_ASSERT(S_ISDIR(ino->base.mode), "mode type bits forced to directory");
		VP_REACH("dir");
		break;
	default:
		VP_ASSERT(ino->payload_bytes_used == 0, "no payload for device/ipc inodes");
		VP_REACH("other");
		break;
	}
}
