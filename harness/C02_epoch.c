/*
 * C02 O-5b: get_source_date_epoch() depends on the SOURCE_DATE_EPOCH string
 * only (no clock, no locale): same string => same value; the value is the
 * decimal number or 0.
 * real code: lib/util/src/source_date_epoch.c
 */
#include "vp.h"
#include <string.h>
#include "util/util.h"
#ifndef N
#define N 4
#endif
static char envval[N + 1];
static int env_null, getenv_calls, other_name;
char *getenv(const char *name) { getenv_calls++; if (strcmp(name, "SOURCE_DATE_EPOCH") != 0) other_name = 1; return env_null ? NULL : envval; }
sqfs_u32 get_source_date_epoch(void);
void harness(void)
{
	sqfs_u32 a, b, ref = 0;
	int digits_only = 1, i;
	env_null = ND_BOOL();
	for (i = 0; i < N; ++i) envval[i] = (char)ND_U8();
	envval[N] = 0;
	a = get_source_date_epoch();
	b = get_source_date_epoch();
	VP_ASSERT(a == b, "C02: same environment string => same timestamp (no hidden input)");
	VP_ASSERT(getenv_calls == 2 && !other_name, "only SOURCE_DATE_EPOCH is consulted");
	for (i = 0; i < N; ++i) {
		if (envval[i] == 0) break;
		if (envval[i] < '0' || envval[i] > '9') digits_only = 0;
		ref = ref * 10 + (sqfs_u32)(envval[i] - '0');
	}
	if (env_null || envval[0] == 0 || !digits_only)
		VP_ASSERT(a == 0, "unset / empty / non-numeric => 0");
	else
		VP_ASSERT(a == ref, "value is the decimal number in the string");
	VP_REACH("done");
}
