/*
 * C15 O-3: the stream codec wrappers (process_data) against contract stubs of
 * the codec libraries.
 * real code: lib/xfrm/src/gzip.c (KIND 1), xz.c (KIND 2), bzip2.c (KIND 3),
 *            zstd.c (KIND 4), #included; compressing direction.
 * Library model (deflate / lzma_code / BZ2_bzCompress): one call consumes
 * c <= avail_in bytes, emits p <= avail_out bytes out of an internal backlog
 * (symbolic initial size = data the library still buffers from earlier
 * calls); with the FINISH action it reports end-of-stream once the input is
 * consumed and the backlog is empty.
 *
 * Contract checked on ONE process_data() call with symbolic sizes/mode:
 *  (1) *in_read / *out_written advance by exactly what the library consumed /
 *      produced and never beyond in_size / out_size;
 *  (2) END is returned iff the library reported end of stream;
 *  (3) PROGRESS: when asked to finish (FLUSH_FULL) with output space
 *      available, the library is called even if no input is left - otherwise
 *      the output stream wrapper can never drain the codec and
 *      flush_inbuf(finish) spins forever.
 */
#include "vp.h"
#include <string.h>
#include <stdlib.h>
#ifndef KIND
#define KIND 1
#endif
#define CAP 4

static unsigned backlog, lib_calls, lib_consumed, lib_produced;
static int lib_last_end;

/* one library step on (avail_in, avail_out); returns 1 at end of stream */
static int lib_step(unsigned *avail_in, unsigned *avail_out, unsigned char *next_out, int finish, int *no_progress)
{
	unsigned c = ND_U32(), p = ND_U32();
	lib_calls++;
	VP_ASSUME(c <= *avail_in);
	VP_ASSUME(p <= *avail_out && p <= backlog + c);
	/* a real codec makes progress when it can */
	if (*avail_in > 0)
		VP_ASSUME(c > 0 || p > 0 || *avail_out == 0);
	if (finish && *avail_in == 0 && backlog > 0 && *avail_out > 0)
		VP_ASSUME(p > 0);
	for (unsigned i = 0; i < CAP; ++i)
		if (i < p)
			next_out[i] = (unsigned char)ND_U8();
	backlog = backlog + c - p;
	*avail_in -= c;
	*avail_out -= p;
	lib_consumed += c;
	lib_produced += p;
	*no_progress = (c == 0 && p == 0);
	lib_last_end = finish && *avail_in == 0 && backlog == 0;
	return lib_last_end;
}

#if KIND == 1
#include <zlib.h>
int deflate(z_streamp s, int flush)
{
	int np, end = lib_step(&s->avail_in, &s->avail_out, s->next_out, flush == Z_FINISH, &np);
	unsigned adv_in = 0;
	(void)adv_in;
	s->next_out += 0;
	return end ? Z_STREAM_END : (np ? Z_BUF_ERROR : Z_OK);
}
static int lib_error;
int inflate(z_streamp s, int flush)
{
#ifdef CORRUPT
	/* damaged input: zlib reports Z_DATA_ERROR (or Z_NEED_DICT / Z_MEM_ERROR) and makes no progress, on this and every later call */
	if (lib_error || ND_BOOL()) { int k = ND_I32(); VP_ASSUME(k >= 0 && k <= 2); lib_error = 1; lib_calls++; return k == 0 ? Z_DATA_ERROR : k == 1 ? Z_NEED_DICT : Z_MEM_ERROR; }
#endif
	return deflate(s, flush);
}
int deflateReset(z_streamp s) { (void)s; return Z_OK; }
int inflateReset(z_streamp s) { (void)s; return Z_OK; }
int deflateEnd(z_streamp s) { (void)s; return Z_OK; }
int inflateEnd(z_streamp s) { (void)s; return Z_OK; }
int deflateInit2_(z_streamp s, int l, int m, int w, int ml, int st, const char *v, int sz) { (void)s; (void)l; (void)m; (void)w; (void)ml; (void)st; (void)v; (void)sz; return Z_OK; }
int inflateInit2_(z_streamp s, int w, const char *v, int sz) { (void)s; (void)w; (void)v; (void)sz; return Z_OK; }
#include "lib/xfrm/src/gzip.c"
static xfrm_stream_gzip_t OBJ;
#ifdef CORRUPT
#define SETUP() do { OBJ.compress = false; } while (0)
#else
#define SETUP() do { OBJ.compress = true; } while (0)
#endif
#elif KIND == 2
#include <lzma.h>
lzma_ret lzma_code(lzma_stream *s, lzma_action a)
{
	unsigned ai = (unsigned)s->avail_in, ao = (unsigned)s->avail_out;
	int np, end = lib_step(&ai, &ao, s->next_out, a == LZMA_FINISH, &np);
	s->avail_in = ai; s->avail_out = ao;
	return end ? LZMA_STREAM_END : (np ? LZMA_BUF_ERROR : LZMA_OK);
}
void lzma_end(lzma_stream *s) { (void)s; }
lzma_ret lzma_stream_encoder(lzma_stream *s, const lzma_filter *f, lzma_check c) { (void)s; (void)f; (void)c; return LZMA_OK; }
lzma_ret lzma_stream_decoder(lzma_stream *s, uint64_t m, uint32_t fl) { (void)s; (void)m; (void)fl; return LZMA_OK; }
lzma_bool lzma_lzma_preset(lzma_options_lzma *o, uint32_t p) { (void)o; (void)p; return 0; }
#include "lib/xfrm/src/xz.c"
static xfrm_xz_t OBJ;
#define SETUP() do { OBJ.compress = true; OBJ.initialized = ND_BOOL(); } while (0)
#elif KIND == 4
#include <zstd.h>
/* ZSTD_compressStream2: consumes input->pos.., produces output->pos..; returns
   the number of bytes still to flush (0 = everything flushed / frame complete
   for ZSTD_e_flush / ZSTD_e_end) or an error code */
size_t ZSTD_compressStream2(ZSTD_CCtx *c, ZSTD_outBuffer *o, ZSTD_inBuffer *i, ZSTD_EndDirective e)
{
	unsigned ai = (unsigned)(i->size - i->pos), ao = (unsigned)(o->size - o->pos), ai0 = ai, ao0 = ao;
	int np, end;
	(void)c;
	end = lib_step(&ai, &ao, (unsigned char *)o->dst + o->pos, e == ZSTD_e_end, &np);
	i->pos += ai0 - ai; o->pos += ao0 - ao;
	(void)np;
	/* end of frame: 0; otherwise a hint > 0 (bytes still buffered, at least 1) */
	return end ? 0 : (size_t)backlog + 1;
}
size_t ZSTD_decompressStream(ZSTD_DStream *d, ZSTD_outBuffer *o, ZSTD_inBuffer *i) { (void)d; (void)o; (void)i; return 0; }
unsigned ZSTD_isError(size_t code) { return code > (size_t)-100; }
ZSTD_CStream *ZSTD_createCStream(void) { return NULL; }
ZSTD_DStream *ZSTD_createDStream(void) { return NULL; }
size_t ZSTD_freeCStream(ZSTD_CStream *z) { (void)z; return 0; }
size_t ZSTD_freeDStream(ZSTD_DStream *z) { (void)z; return 0; }
#include "lib/xfrm/src/zstd.c"
static xfrm_zstd_t OBJ;
#define SETUP() do { OBJ.compress = true; } while (0)
#else
#include <bzlib.h>
int BZ2_bzCompress(bz_stream *s, int action)
{
	int np, end = lib_step(&s->avail_in, &s->avail_out, (unsigned char *)s->next_out, action == BZ_FINISH, &np);
	(void)np;
	return end ? BZ_STREAM_END : (action == BZ_FINISH ? BZ_FINISH_OK : BZ_RUN_OK);
}
int BZ2_bzDecompress(bz_stream *s) { return BZ2_bzCompress(s, BZ_RUN); }
int BZ2_bzCompressInit(bz_stream *s, int b, int v, int w) { (void)s; (void)b; (void)v; (void)w; return BZ_OK; }
int BZ2_bzDecompressInit(bz_stream *s, int v, int sm) { (void)s; (void)v; (void)sm; return BZ_OK; }
int BZ2_bzCompressEnd(bz_stream *s) { (void)s; return BZ_OK; }
int BZ2_bzDecompressEnd(bz_stream *s) { (void)s; return BZ_OK; }
#include "lib/xfrm/src/bzip2.c"
static xfrm_stream_bzip2_t OBJ;
#define SETUP() do { OBJ.compress = true; OBJ.initialized = ND_BOOL(); } while (0)
#endif

void harness(void)
{
	unsigned char in[CAP], out[CAP];
	sqfs_u32 in_size = ND_U32(), out_size = ND_U32(), in_read = ND_U32(), out_written = ND_U32();
	sqfs_u32 in0, out0;
	int mode = ND_I32(), ret;

	VP_ASSUME(in_size <= CAP && out_size <= CAP);
	VP_ASSUME(in_read <= 8 && out_written <= 8);
	VP_ASSUME(mode == XFRM_STREAM_FLUSH_NONE || mode == XFRM_STREAM_FLUSH_FULL);
	backlog = ND_U32();
	VP_ASSUME(backlog <= 3);
	for (int i = 0; i < CAP; ++i) in[i] = ND_U8();
	in0 = in_read; out0 = out_written;
	SETUP();

	ret = process_data((xfrm_stream_t *)&OBJ, in, in_size, out, out_size, &in_read, &out_written, mode);

#ifdef CORRUPT
	/* C07/C15: a library error on damaged input ends the call with an error
	   (the unwinding assertions of this obligation prove that the loop ends) */
	VP_ASSERT((ret == XFRM_STREAM_ERROR) == (lib_error != 0), "C07: a decoder error on damaged input is reported as an error, never retried forever or swallowed");
	if (lib_error) { VP_REACH("library_error"); return; }
#endif
	VP_ASSERT(ret != XFRM_STREAM_ERROR, "a well-behaved library never makes the wrapper fail");
	VP_ASSERT(in_read - in0 == lib_consumed && in_read - in0 <= in_size, "(1) *in_read advances by what the library consumed, within in_size");
	VP_ASSERT(out_written - out0 == lib_produced && out_written - out0 <= out_size, "(1) *out_written advances by what the library produced, within out_size");
	VP_ASSERT((ret == XFRM_STREAM_END) == (lib_calls > 0 && lib_last_end), "(2) END is reported iff the library reported end of stream");
#ifndef CORRUPT
	if (mode == XFRM_STREAM_FLUSH_FULL && out_size > 0)
#else
	if (0)
#endif
		VP_ASSERT(lib_calls >= 1, "C15 (3): asked to finish with output space available, the codec is driven even when no input is left (otherwise flush never terminates)");
	if (ret == XFRM_STREAM_END)
		VP_REACH("end");
	if (mode == XFRM_STREAM_FLUSH_FULL && in_size == 0)
		VP_REACH("finish_without_input");
	VP_REACH("done");
}
