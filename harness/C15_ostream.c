/*
 * C15 O-2: the compressing output stream wrapper.
 * real code: lib/xfrm/src/ostream.c (#included, BUFSZ scaled by hook)
 * env: identity codec stub with symbolic consumption/production per call and
 *      a 2 byte trailer that is only emitted when finishing (models a
 *      compressor's internal buffering + stream trailer, incl. the case that
 *      the pending output is larger than one output buffer); recording sink.
 * Post: the sink receives exactly the appended bytes, in order, followed by
 * the trailer - whatever the chunking - and flush() terminates.
 */
#ifndef N
#define N 3
#endif
#ifndef K
#define K 2
#endif
#ifndef BUF
#define BUF 2
#endif
#define TRAILER 2
#define QCAP (K * N + TRAILER + 1)
#include "vp.h"
#include <string.h>
#include "sqfs/io.h"
#include "sqfs/error.h"
#include "xfrm/stream.h"

static unsigned char q[QCAP];
static unsigned qh, qt;		/* FIFO of bytes inside the codec */
static int trailer_done, ended;
static unsigned consumed_total;

static int codec(xfrm_stream_t *s, const void *in, sqfs_u32 in_size, void *out, sqfs_u32 out_size,
		 sqfs_u32 *in_read, sqfs_u32 *out_written, int mode)
{
	unsigned c = ND_U32(), p = ND_U32(), i;
	(void)s;
	VP_ASSERT(!ended, "the codec is not driven after it reported the end of the stream");
	VP_ASSUME(c <= in_size);
	if (in_size > 0)
		VP_ASSUME(c > 0 || out_size == 0 || qt - qh > 0);	/* progress */
	for (i = 0; i < N + BUF; ++i)
		if (i < c) {
			VP_ASSERT(qt < QCAP, "codec FIFO");
			q[qt++] = ((const unsigned char *)in)[i];
		}
	consumed_total += c;
	*in_read += c;
	if (mode == XFRM_STREAM_FLUSH_FULL && c == in_size && !trailer_done) {
		VP_ASSERT(qt + TRAILER <= QCAP, "codec FIFO");
		q[qt++] = 0xEE; q[qt++] = 0xEF;
		trailer_done = 1;
	}
	VP_ASSUME(p <= out_size && p <= qt - qh);
	if (out_size > 0 && qt - qh > 0 && (c == 0 || mode == XFRM_STREAM_FLUSH_FULL))
		VP_ASSUME(p > 0);					/* progress */
	for (i = 0; i < BUF; ++i)
		if (i < p)
			((unsigned char *)out)[i] = q[qh + i];
	qh += p;
	*out_written += p;
	if (trailer_done && qh == qt) {
		ended = 1;
		return XFRM_STREAM_END;
	}
	return (p == out_size && qt - qh > 0) ? XFRM_STREAM_BUFFER_FULL : XFRM_STREAM_OK;
}

static unsigned char sink[QCAP];
static unsigned sink_n, sink_flushed;
static int sink_append(sqfs_ostream_t *s, const void *d, size_t n)
{
	(void)s;
	VP_ASSERT(sink_n + n <= QCAP, "sink capacity");
	for (unsigned i = 0; i < BUF; ++i)
		if (i < n)
			sink[sink_n + i] = ((const unsigned char *)d)[i];
	sink_n += (unsigned)n;
	return 0;
}
static int sink_flush(sqfs_ostream_t *s) { (void)s; sink_flushed++; return 0; }

#include "lib/xfrm/src/ostream.c"

static ostream_xfrm_t OS;
static xfrm_stream_t CODEC;
static sqfs_ostream_t SINK;

void harness(void)
{
	unsigned char data[K][N], expect[QCAP];
	unsigned total = 0, i, k;
	int ret = 0;

	CODEC.process_data = codec;
	SINK.append = sink_append;
	SINK.flush = sink_flush;
	OS.wrapped = &SINK;
	OS.xfrm = &CODEC;
	for (k = 0; k < K; ++k) {
		size_t n = ND_SZ();
		VP_ASSUME(n <= N);
		for (i = 0; i < N; ++i) {
			data[k][i] = ND_U8();
			if (i < n)
				expect[total + i] = data[k][i];
		}
		ret = xfrm_append((sqfs_ostream_t *)&OS, data[k], n);
		VP_ASSERT(ret == 0, "append succeeds");
		total += (unsigned)n;
	}
	VP_ASSUME(total > 0);
	ret = xfrm_flush((sqfs_ostream_t *)&OS);
	VP_ASSERT(ret == 0, "flush succeeds");
	VP_ASSERT(ended, "C15: flush drives the codec until it reports the end of the stream (trailer written)");
	VP_ASSERT(consumed_total == total, "every appended byte reached the codec exactly once");
	VP_ASSERT(sink_n == total + TRAILER && sink_flushed == 1, "C15: the sink holds the complete stream");
	for (i = 0; i < QCAP; ++i)
		if (i < total)
			VP_ASSERT(sink[i] == expect[i], "C15: the bytes reach the sink in order, whatever the chunking");
	VP_ASSERT(sink[total] == 0xEE && sink[total + 1] == 0xEF, "stream trailer follows the data");
	VP_ASSERT(OS.inbuf_used == 0, "nothing is left in the wrapper");
	VP_REACH("done");
}
