/*
 * C13 / C01: tar2sqfs' main loop process_tarball() and its helpers
 * write_file(), copy_xattr(), create_node_and_repack_data(),
 * set_root_attribs() (bin/tar2sqfs/src/process_tarball.c, #included), driven
 * by a stub iterator that delivers NENT entries of symbolic kind, with a
 * fault injected at EVERY step (iterator, link/xattr readers, tree insertion,
 * xattr writer, block stream, splice, flush).
 *
 * C13: returns 0 iff every step succeeded; nothing runs after a failed step;
 *      every entry, link target, xattr list and stream is released exactly
 *      once on every path (memory-leak check + counters); data is flushed
 *      before success is reported.
 * C01: the time stamp handed to the tree is clamped into [0, 2^32-1] (or is
 *      the configured default), ownership/mode of the archive's root entry
 *      reach the root node, an unsupported xattr prefix is skipped (or fatal
 *      with --no-skip), never silently replaced.
 */
#include "vp.h"
#include <stdlib.h>
#include <string.h>
#include <stdio.h>
#include <sys/stat.h>
#include "tar2sqfs.h"

bool dont_skip, keep_time, no_tail_pack, no_symlink_retarget;
sqfs_writer_cfg_t cfg;
char *root_becomes;
strlist_t excludedirs;

static int step, failed_at, diag;
static int stepf(void)
{
	VP_ASSERT(failed_at == 0, "C13: no further step runs after a failed one");
	step++;
	if (ND_BOOL()) { failed_at = step; return 1; }
	return 0;
}
void sqfs_perror(const char *f, const char *a, int c) { (void)f; (void)a; (void)c; diag++; }
#define perror(s) ((void)(diag++))
#define fprintf(...) ((void)(diag++))
#define printf(...) ((void)0)

#ifndef NENT
#define NENT 1
#endif
static unsigned delivered, lists_out, lists_freed, drops_in, drops_out, flushed, added, unsupported_seen;
static sqfs_s64 mtime_in[NENT], mtime_seen[NENT];
static int was_added[NENT];
static sqfs_u16 mode_in[NENT];
static sqfs_u32 uid_in, gid_in;
static int last_is_root, root_not_dir;
static sqfs_xattr_t XA[2];
static tree_node_t ROOT, NODE;
static sqfs_istream_t FIN;
static sqfs_ostream_t FOUT;
static sqfs_u32 ostream_flags;

static void dtor_in(sqfs_object_t *o) { (void)o; drops_in++; }
static void dtor_out(sqfs_object_t *o) { (void)o; drops_out++; }
static int flush_stub(sqfs_ostream_t *s) { (void)s; if (stepf()) return SQFS_ERROR_IO; flushed++; return 0; }

static int it_next(sqfs_dir_iterator_t *it, sqfs_dir_entry_t **out)
{
	sqfs_dir_entry_t *e;
	unsigned kind;
	(void)it;
	if (delivered >= NENT) return 1;
	if (stepf()) return SQFS_ERROR_IO;
	e = calloc(1, sizeof(*e) + 2);
	VP_ASSUME(e != NULL);
	kind = ND_U32();
	VP_ASSUME(kind < 4);
	e->mode = (kind == 0 ? S_IFREG : kind == 1 ? S_IFDIR : kind == 2 ? S_IFLNK : S_IFCHR) | 0644;
	if (ND_BOOL()) e->name[0] = 'a';	/* "" is the archive's root entry */
	e->uid = ND_U32(); e->gid = ND_U32(); e->size = ND_U64(); e->mtime = ND_I64();
	if (kind == 2 && ND_BOOL()) e->flags = SQFS_DIR_ENTRY_FLAG_HARD_LINK;
	mtime_in[delivered] = e->mtime; mode_in[delivered] = e->mode; uid_in = e->uid; gid_in = e->gid;
	last_is_root = (e->name[0] == 0);
	if (last_is_root && (kind != 1 || (e->flags & SQFS_DIR_ENTRY_FLAG_HARD_LINK))) root_not_dir = 1;
	delivered++;
	*out = e;
	return 0;
}
static int it_read_link(sqfs_dir_iterator_t *it, char **out)
{
	char *l;
	(void)it;
	if (stepf()) return SQFS_ERROR_IO;
	l = malloc(2);
	VP_ASSUME(l != NULL);
	l[0] = 't'; l[1] = 0;
	*out = l;
	return 0;
}
static int it_open_file_ro(sqfs_dir_iterator_t *it, sqfs_istream_t **out)
{
	(void)it;
	if (stepf()) return SQFS_ERROR_IO;
	FIN.base.refcount = 1; FIN.base.destroy = dtor_in; *out = &FIN; return 0;
}
static int it_read_xattr(sqfs_dir_iterator_t *it, sqfs_xattr_t **out)
{
	unsigned n = ND_U32();
	(void)it;
	VP_ASSUME(n <= 2);
	if (stepf()) return SQFS_ERROR_IO;
	XA[0].next = n == 2 ? &XA[1] : NULL; XA[1].next = NULL;
	XA[0].key = "user.a"; XA[1].key = "bogus.b";
	*out = n == 0 ? NULL : &XA[0];
	lists_out++;
	return 0;
}
void sqfs_xattr_list_free(sqfs_xattr_t *l) { (void)l; lists_freed++; }
int sqfs_xattr_writer_begin(sqfs_xattr_writer_t *x, sqfs_u32 fl) { (void)x; (void)fl; return stepf() ? SQFS_ERROR_ALLOC : 0; }
int sqfs_xattr_writer_add(sqfs_xattr_writer_t *x, const sqfs_xattr_t *e)
{
	(void)x;
	if (e == &XA[1] && ND_BOOL()) { unsupported_seen++; if (dont_skip) { VP_ASSERT(failed_at == 0, "order"); step++; failed_at = step; } return SQFS_ERROR_UNSUPPORTED; }
	return stepf() ? SQFS_ERROR_ALLOC : 0;
}
static sqfs_u32 xattr_token;
int sqfs_xattr_writer_end(sqfs_xattr_writer_t *x, sqfs_u32 *out) { (void)x; if (stepf()) return SQFS_ERROR_ALLOC; *out = xattr_token; return 0; }
tree_node_t *fstree_add_generic(fstree_t *fs, const sqfs_dir_entry_t *ent, const char *extra)
{
	(void)fs;
	if (stepf()) return NULL;
	VP_ASSERT(delivered >= 1 && delivered <= NENT, "entry");
	mtime_seen[delivered - 1] = ent->mtime; was_added[delivered - 1] = 1;
	VP_ASSERT(!S_ISLNK(ent->mode) || (extra != NULL && extra[0] == 't'), "link target travels with the entry");
	VP_ASSERT(ent->mode == mode_in[delivered - 1], "C01: the mode of the archive entry reaches the tree unchanged");
	added++;
	return &NODE;
}
int sqfs_block_processor_create_ostream(sqfs_ostream_t **out, const char *fn, sqfs_block_processor_t *p, sqfs_inode_generic_t **ino, sqfs_u32 fl)
{
	(void)fn; (void)p;
	VP_ASSERT(ino == &NODE.data.file.inode, "the file's inode slot is the tree node's");
	if (stepf()) return SQFS_ERROR_ALLOC;
	ostream_flags = fl;
	FOUT.base.refcount = 1; FOUT.base.destroy = dtor_out; FOUT.flush = flush_stub; *out = &FOUT; return 0;
}
static unsigned splices;
sqfs_s32 sqfs_istream_splice(sqfs_istream_t *in, sqfs_ostream_t *out, sqfs_u32 size)
{
	(void)size;
	VP_ASSERT(in == &FIN && out == &FOUT, "splice from the archive member to the block stream");
	if (stepf()) return SQFS_ERROR_IO;
	splices++;
	return (splices < 3 && ND_BOOL()) ? 1 : 0;
}
int canonicalize_name(char *s) { (void)s; return 0; }

#include "bin/tar2sqfs/src/process_tarball.c"

void harness(void)
{
	static sqfs_dir_iterator_t IT;
	static sqfs_writer_t W;
	unsigned i;
	int rc;

	IT.next = it_next; IT.read_link = it_read_link; IT.open_file_ro = it_open_file_ro; IT.read_xattr = it_read_xattr;
	W.fs.root = &ROOT;
	W.fs.defaults.mtime = ND_U32();
	cfg.quiet = true; cfg.block_size = 4096; cfg.no_xattr = ND_BOOL();
	keep_time = ND_BOOL(); dont_skip = ND_BOOL(); no_tail_pack = ND_BOOL();
	xattr_token = ND_U32();
	ROOT.mod_time = 77;

	rc = process_tarball(&IT, &W);

	VP_ASSERT((rc == 0) == (failed_at == 0 && !root_not_dir), "C13: the archive is processed successfully iff every step succeeded (and the archive's root entry is a directory)");
	VP_ASSERT(!root_not_dir || diag >= 1, "a root entry that is not a directory is diagnosed");
#if NENT == 1
	if (rc == 0 && last_is_root) {
		VP_ASSERT(ROOT.uid == uid_in && ROOT.gid == gid_in && ROOT.mode == mode_in[0], "C01: owner, group and mode of the archive's root entry reach the root node");
		VP_ASSERT(ROOT.mod_time == (keep_time ? (sqfs_u32)(mtime_in[0] < 0 ? 0 : mtime_in[0] > 0xFFFFFFFFLL ? 0xFFFFFFFFLL : mtime_in[0]) : 77),
			  "C01: the root time stamp is the clamped archive value with --keep-time, the default otherwise");
		VP_ASSERT(cfg.no_xattr || lists_out == 1, "root xattrs are copied");
		VP_REACH("root");
	}
#endif
	VP_ASSERT(rc == 0 || rc == -1, "result");
	VP_ASSERT(lists_freed == lists_out, "C13: every xattr list obtained from the reader is released exactly once");
	VP_ASSERT(drops_in == (FIN.base.refcount ? 1 : 0) || NENT > 1, "member stream released exactly once");
	VP_ASSERT(drops_out == (FOUT.base.refcount ? 1 : 0) || NENT > 1, "block stream released exactly once");
	for (i = 0; i < NENT; ++i) {
		if (was_added[i]) {
			if (keep_time)
				VP_ASSERT(mtime_seen[i] == (mtime_in[i] < 0 ? 0 : mtime_in[i] > 0xFFFFFFFFLL ? 0xFFFFFFFFLL : mtime_in[i]),
					  "C01: a time stamp outside the 32 bit range is clamped, never wrapped");
			else
				VP_ASSERT(mtime_seen[i] == W.fs.defaults.mtime, "C01: without --keep-time every entry gets the default time stamp");
		}
	}
	if (rc == 0) {
		VP_ASSERT(delivered == NENT, "every entry was consumed");
		VP_ASSERT(flushed == drops_out || NENT > 1, "C13: file data is flushed before success is reported");
		VP_ASSERT(unsupported_seen == 0 || !dont_skip, "C13: with --no-skip an unsupported xattr prefix is fatal");
		VP_REACH("success");
	} else {
		VP_REACH("failure");
	}
}
