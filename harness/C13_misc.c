/*
 * C13: error paths that must not report success.
 * MODE 1  sqfs_dir_writer_write_export_table (lib/sqfs/src/dir_writer.c):
 *         if the root entry cannot be added to the export table, the error is
 *         returned (not 0) and the superblock is not marked exportable.
 * MODE 2  sqfs_writer_cleanup (lib/common/src/writer/cleanup.c): the output
 *         file is unlinked exactly when the status is not EXIT_SUCCESS.
 */
#include "vp.h"
#include <stdlib.h>
#include <string.h>
#if MODE == 1
#include "sqfs/meta_writer.h"
#include "sqfs/super.h"
#include "sqfs/error.h"
struct sqfs_meta_writer_t { sqfs_object_t base; int d; };
int sqfs_meta_writer_append(sqfs_meta_writer_t *m, const void *d, size_t s) { (void)m; (void)d; (void)s; return 0; }
void sqfs_meta_writer_get_position(const sqfs_meta_writer_t *m, sqfs_u64 *b, sqfs_u32 *o) { (void)m; *b = 0; *o = 0; }
static int table_written;
int sqfs_write_table(sqfs_file_t *f, sqfs_compressor_t *c, const void *d, size_t n, sqfs_u64 *start) { (void)f; (void)c; (void)d; (void)n; *start = 96; table_written++; return 0; }
#include "lib/sqfs/src/dir_writer.c"
static sqfs_dir_writer_t DW;
static sqfs_u64 TBL[4];
void harness(void)
{
	sqfs_super_t super;
	sqfs_u32 root_num = ND_U32();
	int ret;
	memset(&super, 0, sizeof(super));
	super.export_table_start = ~0ULL;
	DW.export_tbl.data = TBL;
	DW.export_tbl.size = sizeof(sqfs_u64);
	DW.export_tbl.count = 4;
	DW.export_tbl.used = 0;
	VP_ASSUME(root_num <= 4);
	ret = sqfs_dir_writer_write_export_table(&DW, NULL, NULL, root_num, 7, &super);
	if (root_num < 1) {
		VP_ASSERT(ret != 0, "C13: a root inode number that cannot be entered in the export table is an error, not silent success");
		VP_ASSERT(table_written == 0 && !(super.flags & SQFS_FLAG_EXPORTABLE), "no export table is announced when building it failed");
		VP_REACH("rejected");
	} else {
		VP_ASSERT(ret == 0 && table_written == 1 && (super.flags & SQFS_FLAG_EXPORTABLE) && super.export_table_start == 96, "export table written and announced");
		VP_ASSERT(TBL[root_num - 1] == 7, "C17: export table slot inode_number-1 holds the inode reference");
		for (sqfs_u32 i = 0; i + 1 < root_num; ++i)
			VP_ASSERT(TBL[i] == ~0ULL, "C17: unused export table slots are all-ones");
		VP_REACH("written");
	}
}
#else
#include "simple_writer.h"
static int unlinked, tree_cleaned;
static const char *unlinked_name;
int unlink(const char *p) { unlinked++; unlinked_name = p; return 0; }
void fstree_cleanup(fstree_t *fs) { (void)fs; tree_cleaned++; }
#include "lib/common/src/writer/cleanup.c"
void harness(void)
{
	static sqfs_writer_t W;
	int status = ND_I32();
	W.filename = "out.sqfs";
	sqfs_writer_cleanup(&W, status);
	VP_ASSERT(tree_cleaned == 1, "tree released");
	if (status != EXIT_SUCCESS) {
		VP_ASSERT(unlinked == 1 && unlinked_name == W.filename, "C13: a failed run removes its partial output file");
		VP_REACH("removed");
	} else {
		VP_ASSERT(unlinked == 0, "C13: a successful run keeps its output");
		VP_REACH("kept");
	}
}
#endif
