/*
 * C11 O-3: which name of a multiply-linked file becomes the real file.
 * real code: lib/sqfs/src/io/dir_hl.c (#included)
 * env: source iterator stub that returns two directory entries with the same
 *      (dev, inode) in a SYMBOLIC order; rbtree replaced by a 2-slot map with
 *      the documented insert/lookup semantics.
 *
 * What must hold regardless of order (and does): exactly one of the two is
 * turned into a hard link, and the link's target is the other name.
 * What order independence additionally requires (C11): the choice of the
 * primary must be a function of the names, e.g. the smaller name - this is
 * where the implementation depends on the enumeration order
 * ("first path seen becomes the real file") => recorded known finding.
 */
#include "vp.h"
#include <stdlib.h>
#include <string.h>
#include <sys/stat.h>
#include "util/rbtree.h"

/* ---- 2-slot map standing in for rbtree.c ---- */
static struct { rbtree_node_t n; unsigned char kv[16 + 8]; } SLOT[2];
static int slots_used;
int rbtree_init(rbtree_t *t, size_t ks, size_t vs, int (*cmp)(const void *, const void *, const void *))
{ memset(t, 0, sizeof(*t)); t->key_size = ks; t->value_size = vs; t->key_compare = cmp; return 0; }
void rbtree_cleanup(rbtree_t *t) { t->root = NULL; }
int rbtree_insert(rbtree_t *t, const void *key, const void *value)
{
	VP_ASSERT(slots_used < 2, "map capacity");
	SLOT[slots_used].n.value_offset = 16;
	memcpy(SLOT[slots_used].n.data, key, 16);
	memcpy(SLOT[slots_used].n.data + 16, value, 8);
	SLOT[slots_used].n.left = slots_used > 0 ? &SLOT[slots_used - 1].n : NULL;
	t->root = &SLOT[slots_used].n;
	slots_used++;
	return 0;
}
rbtree_node_t *rbtree_lookup(const rbtree_t *t, const void *key)
{
	for (int i = 0; i < 2; ++i)
		if (i < slots_used && t->key_compare(t->key_context, key, SLOT[i].n.data) == 0)
			return &SLOT[i].n;
	return NULL;
}

#include "lib/sqfs/src/io/dir_hl.c"

static struct { sqfs_dir_entry_t e; char name[2]; } ENT[2];
static int order, served;
static int src_next(sqfs_dir_iterator_t *it, sqfs_dir_entry_t **out)
{
	(void)it;
	if (served >= 2) { *out = NULL; return 1; }
	*out = &ENT[order ? 1 - served : served].e;
	served++;
	return 0;
}
static sqfs_dir_iterator_t SRC;
static char dupbuf[2][2];
static int dups;
char *vp_strdup(const char *s) { char *d = dupbuf[dups++ & 1]; d[0] = s[0]; d[1] = 0; return d; }

void harness(void)
{
	sqfs_dir_iterator_t *hl = NULL;
	sqfs_dir_entry_t *a = NULL, *b = NULL;
	char *tgt = NULL;
	int ret, a_is_link, b_is_link;

	for (int i = 0; i < 2; ++i) {
		ENT[i].name[0] = (char)ND_U8();
		ENT[i].name[1] = 0;
		VP_ASSUME(ENT[i].name[0] != 0 && ENT[i].name[0] != '/');
		ENT[i].e.mode = S_IFREG | 0644;
		ENT[i].e.dev = 7;
		ENT[i].e.inode = 42;
	}
	VP_ASSUME(ENT[0].name[0] < ENT[1].name[0]);	/* ENT[0] carries the smaller name */
	order = ND_BOOL();				/* the host's enumeration order */
	SRC.next = src_next;
	SRC.obj.refcount = 1;

	ret = sqfs_hard_link_filter_create(&hl, &SRC);
	VP_ASSUME(ret == 0);
	ret = hl->next(hl, &a);
	VP_ASSERT(ret == 0 && a != NULL, "first entry");
	a_is_link = (a->flags & SQFS_DIR_ENTRY_FLAG_HARD_LINK) != 0;
	ret = hl->next(hl, &b);
	VP_ASSERT(ret == 0 && b != NULL, "second entry");
	b_is_link = (b->flags & SQFS_DIR_ENTRY_FLAG_HARD_LINK) != 0;

	VP_ASSERT(a_is_link + b_is_link == 1, "exactly one of two names of the same inode becomes a hard link");
	ret = hl->read_link(hl, &tgt);
	VP_ASSERT(b_is_link && ret == 0 && tgt != NULL && strcmp(tgt, a->name) == 0, "the link points at the name that was kept as the real file");

	/* C11: primary must not depend on the enumeration order */
	VP_ASSERT((a_is_link ? b : a) == &ENT[0].e,
		  "C11: which name carries the inode is independent of the enumeration order (smaller name is primary)");
	VP_REACH("end");
}
