/*
 * C17 O-4: pack_file() hands the node's flags to the block processor and adds
 * DONT_FRAGMENT exactly when --no-tail-packing is set and the file is larger
 * than one block.
 * real code: bin/gensquashfs/src/mkfs.c (#included: pack_file)
 * env: file open/size/stream constructors, splice and the ostream constructor
 *      are recording stubs.
 */
#include "vp.h"
#include <string.h>
#define main vp_gensquashfs_main
#include "bin/gensquashfs/src/mkfs.c"
#undef main

static sqfs_u64 the_size;
static sqfs_u32 got_flags;
static int ostream_created, open_fail, closed_uninit;
int sqfs_native_file_open(sqfs_file_handle_t *out, const char *fn, sqfs_u32 flags) { (void)fn; (void)flags; if (open_fail) return SQFS_ERROR_IO; *out = 5; return 0; }
int sqfs_native_file_get_size(sqfs_file_handle_t h, sqfs_u64 *out) { (void)h; *out = the_size; return 0; }
void sqfs_native_file_close(sqfs_file_handle_t h) { (void)h; }
static sqfs_istream_t IN;
static sqfs_ostream_t OUT;
static int out_flush(sqfs_ostream_t *s) { (void)s; return 0; }
static void obj_destroy(sqfs_object_t *o) { (void)o; }
int sqfs_istream_open_handle(sqfs_istream_t **out, const char *p, sqfs_file_handle_t fd, sqfs_u32 fl) { (void)p; (void)fd; (void)fl; IN.base.refcount = 1; IN.base.destroy = obj_destroy; *out = &IN; return 0; }
int sqfs_block_processor_create_ostream(sqfs_ostream_t **out, const char *fn, sqfs_block_processor_t *proc, sqfs_inode_generic_t **inode, sqfs_u32 flags)
{ (void)fn; (void)proc; (void)inode; got_flags = flags; ostream_created++; OUT.base.refcount = 1; OUT.base.destroy = obj_destroy; OUT.flush = out_flush; *out = &OUT; return 0; }
sqfs_s32 sqfs_istream_splice(sqfs_istream_t *in, sqfs_ostream_t *out, sqfs_u32 size) { (void)in; (void)out; (void)size; return 0; }
void sqfs_perror(const char *f, const char *a, int c) { (void)f; (void)a; (void)c; }

void harness(void)
{
	static options_t opt;
	static tree_node_t node;
	int ret;

	the_size = ND_U64();
	opt.cfg.block_size = (size_t)1 << (12 + (ND_U32() % 9));
	opt.no_tail_packing = ND_BOOL();
	node.data.file.flags = (int)(ND_U32() & SQFS_BLK_USER_SETTABLE_FLAGS);
	ret = pack_file(NULL, "f", &node, &opt);
	VP_ASSERT(ret == 0 && ostream_created == 1, "file is submitted once");
	VP_ASSERT(got_flags == ((sqfs_u32)node.data.file.flags |
		  ((opt.no_tail_packing && the_size > opt.cfg.block_size) ? SQFS_BLK_DONT_FRAGMENT : 0)),
		  "C17: block processor receives exactly the node's flags, plus DONT_FRAGMENT iff -T and the file is larger than one block");
	VP_REACH("packed");
}
