/*
 * C01 (pack-file keywords): handle_line() of the gensquashfs pack file parser
 * turns each keyword into an entry of the right type, with the hard-link flag
 * exactly for `link`, the numeric fields parsed, and the extra argument
 * forwarded.
 * real code: bin/gensquashfs/src/fstree_from_file.c (#included: handle_line,
 *            add_generic, add_device, add_file), lib/util/src/parse_int.c,
 *            canonicalize_name.c, split_line.c (split_line_remove_front),
 *            alloc.c
 * env: fstree_add_generic() is a recording stub.
 */
#include "vp.h"
#include <string.h>
#include <stdlib.h>
#include <sys/stat.h>
#include <sys/sysmacros.h>
#define main vp_unused_main
#include "bin/gensquashfs/src/fstree_from_file.c"
#undef main

static sqfs_dir_entry_t seen;
static char seen_name[8];
static const char *seen_extra;
static int add_calls;
tree_node_t *fstree_add_generic(fstree_t *fs, const sqfs_dir_entry_t *ent, const char *extra)
{
	static tree_node_t dummy;
	(void)fs;
	add_calls++;
	seen = *ent;
	strncpy(seen_name, ent->name, sizeof(seen_name) - 1);
	seen_extra = extra;
	return &dummy;
}
int glob_files(fstree_t *fs, const char *filename, size_t line_num, const sqfs_dir_entry_t *ent, const char *basepath, unsigned int glob_flags, split_line_t *extra)
{ (void)fs; (void)filename; (void)line_num; (void)ent; (void)basepath; (void)glob_flags; (void)extra; VP_ASSERT(0, "glob not used here"); return -1; }

static struct { split_line_t s; char *args[9]; } L;
static char t_path[] = "a/b", t_mode[] = "0640", t_uid[] = "7", t_gid[] = "9", t_extra[] = "tgt", t_c[] = "c", t_maj[] = "4", t_min[] = "2";

void harness(void)
{
	static const char *kw[7] = { "dir", "slink", "link", "nod", "pipe", "sock", "file" };
	static const unsigned type[7] = { S_IFDIR, S_IFLNK, S_IFLNK, S_IFCHR, S_IFIFO, S_IFSOCK, S_IFREG };
	static char kwbuf[8];
	static fstree_t fs;
	static options_t opt;
	unsigned k = ND_U32();
	int ret;

	VP_ASSUME(k < 7);
	strcpy(kwbuf, kw[k]);
	L.s.args[0] = kwbuf; L.s.args[1] = t_path; L.s.args[2] = t_mode; L.s.args[3] = t_uid; L.s.args[4] = t_gid;
	L.s.count = 5;
	if (k == 1 || k == 2 || (k == 6 && ND_BOOL())) {
		L.s.args[5] = t_extra; L.s.count = 6;
	} else if (k == 3) {
		L.s.args[5] = t_c; L.s.args[6] = t_maj; L.s.args[7] = t_min; L.s.count = 8;
	}
	opt.dirscan_flags = DIR_SCAN_KEEP_UID | DIR_SCAN_KEEP_GID;
	fs.defaults.mtime = 1234;

	ret = handle_line(&fs, "pack", 1, &L.s, &opt);
	VP_ASSERT(ret == 0 && add_calls == 1, "a well-formed line of every keyword is accepted and adds exactly one entry");
	VP_ASSERT(strcmp(seen_name, "a/b") == 0, "path forwarded");
	VP_ASSERT((seen.mode & S_IFMT) == type[k] && (seen.mode & 07777) == 0640, "C01: entry type follows the keyword, permission bits are the octal field");
	VP_ASSERT(seen.uid == 7 && seen.gid == 9 && seen.mtime == 1234, "owner fields parsed, default mtime applied");
	VP_ASSERT(((seen.flags & SQFS_DIR_ENTRY_FLAG_HARD_LINK) != 0) == (k == 2),
		  "C01: `link` (and only `link`) produces a hard link entry - hard-link groups survive packing");
	if (k == 1 || k == 2)
		VP_ASSERT(seen_extra != NULL && strcmp(seen_extra, "tgt") == 0, "link target forwarded");
	if (k == 3)
		VP_ASSERT(seen.rdev == makedev(4, 2), "device number parsed");
	if (k == 6)
		VP_ASSERT(seen_extra != NULL, "file location defaults to the path");
	VP_REACH("done");
}
