/*
 * C05 O-1 / C14 O-1 (reader side): sqfs_super_read() on 96 unconstrained
 * bytes (+ arbitrary file size): success implies the sanity facts every
 * other reader relies on.
 * real code: lib/sqfs/src/read_super.c
 */
#define VP_IMG 100
#define VP_MAXIO 96
#include "vp_sqfs_stubs.h"
#include "sqfs/super.h"

void harness(void)
{
	sqfs_file_t *f = vp_file_init();
	sqfs_super_t s;
	int ret;

	vp_img_symbolic();
	memset(&s, 0, sizeof(s));
	ret = sqfs_super_read(&s, f);
	if (ret == 0) {
		VP_ASSERT(vp_img_size >= sizeof(s), "a file shorter than the superblock is rejected");
		VP_ASSERT(s.magic == SQFS_MAGIC, "magic checked");
		VP_ASSERT(s.version_major == 4 && s.version_minor == 0, "version checked");
		VP_ASSERT(s.block_log >= 12 && s.block_log <= 20 && s.block_size == (1u << s.block_log),
			  "block size is a power of two in [4K,1M] and agrees with block_log");
		VP_ASSERT(s.compression_id >= SQFS_COMP_MIN && s.compression_id <= SQFS_COMP_MAX, "compressor id in range");
		VP_ASSERT(s.id_count != 0, "an image without ids (the provisional superblock) is rejected");
		VP_REACH("accepted");
	} else {
		VP_ASSERT(ret < 0, "errors are negative");
		VP_REACH("rejected");
	}
}
