/*
 * C17 O-1/O-3: stable priority sort of the file list and the flag keyword
 * table of the sort file.
 * real code: bin/gensquashfs/src/sort_by_file.c (#included: sort_file_list,
 *            decode_flags)
 * MODE 1: NF files with symbolic priorities (s64) -> output is a permutation,
 *         ascending, ties keep their input order (stable).
 * MODE 2: every flag keyword maps to exactly its SQFS_BLK_* bit.
 * MODE 3: decode_filename against an independent unquoting specification.
 */
#include "vp.h"
#include <string.h>
#include <stdlib.h>
#ifndef NF
#define NF 3
#endif
#ifndef MODE
#define MODE 1
#endif
#define main vp_unused_main
#include "bin/gensquashfs/src/sort_by_file.c"
#undef main

static tree_node_t F[NF];

#if MODE == 1
void harness(void)
{
	fstree_t fs;
	tree_node_t *it;
	int pos[NF], i, n = 0;

	memset(&fs, 0, sizeof(fs));
	for (i = 0; i < NF; ++i) {
		F[i].data.file.priority = ND_I64();
		F[i].next_by_type = (i + 1 < NF) ? &F[i + 1] : NULL;
		F[i].inode_num = i;	/* input position */
		pos[i] = -1;
	}
	fs.files = &F[0];
	sort_file_list(&fs);
	for (it = fs.files, i = 0; i < NF + 1 && it != NULL; ++i, it = it->next_by_type) {
		VP_ASSERT(it->inode_num < NF && pos[it->inode_num] == -1, "C17: sorted list is a permutation of the input (no file lost or duplicated)");
		pos[it->inode_num] = i;
		if (it->next_by_type != NULL) {
			VP_ASSERT(it->data.file.priority <= it->next_by_type->data.file.priority, "C17: file data is laid out in ascending priority order");
			if (it->data.file.priority == it->next_by_type->data.file.priority)
				VP_ASSERT(it->inode_num < it->next_by_type->inode_num, "C17: ties keep their default order (stable sort)");
		}
		n++;
	}
	VP_ASSERT(n == NF && it == NULL, "every file is in the output exactly once");
	VP_REACH("sorted");
}
#elif MODE == 3
/*
 * decode_filename(): the file name of a sort file line, plain or in double
 * quotes with \\ and \" escapes, for EVERY buffer content of NB bytes.
 * Independent specification: unquote, then canonicalize; anything else is
 * rejected.  (A quoted name that is not terminated after unquoting keeps a
 * tail of the raw text and silently never matches any file.)
 */
#ifndef NB
#define NB 5
#endif
void harness(void)
{
	char in[NB + 1], buf[NB + 1], spec[NB + 1];
	size_t i, o = 0;
	int ret, ok = 1, quoted;

	for (i = 0; i < NB; ++i) in[i] = (char)ND_U8();
	in[NB] = 0;
	memcpy(buf, in, sizeof(buf));
	quoted = (in[0] == '"');
	if (quoted) {
		int closed = 0;
		for (i = 1; i < NB + 1; ++i) {
			if (closed || !ok) break;
			if (in[i] == 0) { ok = 0; }
			else if (in[i] == '"') { closed = 1; if (in[i + 1] != 0) ok = 0; }
			else if (in[i] == '\\') { if (in[i + 1] == '\\' || in[i + 1] == '"') { spec[o++] = in[i + 1]; ++i; } else ok = 0; }
			else spec[o++] = in[i];
		}
		if (!closed) ok = 0;
		spec[o] = 0;
	} else {
		memcpy(spec, in, sizeof(spec));
	}
	if (ok && canonicalize_name(spec) != 0) ok = 0;

	ret = decode_filename("sort", 1, buf);

	VP_ASSERT((ret == 0) == ok, "C17: a sort file name is accepted iff it is a plain or correctly quoted, canonicalisable path");
	if (ret == 0) {
		VP_ASSERT(strcmp(buf, spec) == 0, "C17: the decoded name is exactly the unquoted, canonical path (so that it can match a file)");
		if (quoted) VP_REACH("quoted"); else VP_REACH("plain");
	} else {
		VP_REACH("rejected");
	}
}
#else
static struct { split_line_t s; char *args[6]; } SPL;
void harness(void)
{
	static const char *kw[6] = { "glob", "glob_no_path", "dont_fragment", "dont_compress", "dont_deduplicate", "nosparse" };
	static const int bit[6] = { 0, 0, SQFS_BLK_DONT_FRAGMENT, SQFS_BLK_DONT_COMPRESS, SQFS_BLK_DONT_DEDUPLICATE, SQFS_BLK_IGNORE_SPARSE };
	char line[48];
	bool g, pg;
	int flags, ret;
	unsigned a = ND_U32(), b = ND_U32();
	VP_ASSUME(a < 6 && b < 6);
	strcpy(line, "[");
	strcat(line, kw[a]);
	strcat(line, ",");
	strcat(line, kw[b]);
	strcat(line, "] f");
	ret = decode_flags("sort", 1, &g, &pg, &flags, line);
	VP_ASSERT(ret == 0, "a list of known flags is accepted");
	VP_ASSERT(flags == (bit[a] | bit[b]), "C17: each flag keyword sets exactly its block flag");
	VP_ASSERT(g == (a < 2 || b < 2), "glob keywords select pattern matching");
	VP_ASSERT(strcmp(line, "f") == 0, "flag list is stripped from the line");
	VP_REACH("flags");
}
#endif
