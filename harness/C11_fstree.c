/*
 * C11 O-1/O-2 (+ C03 O-5 dense inode numbers): the tree the packer numbers
 * and serialises is a function of the SET of entries, not of the order in
 * which the host returned them.
 *
 * real code: lib/fstree/src/fstree.c (#included: insert_sorted),
 *            lib/fstree/src/post_process.c (#included: alloc_inode_num_dfs,
 *            map_inodes_dfs, file_list_dfs)
 * Nodes are typed static objects; names (<= NL bytes) and node types are
 * symbolic.  Because the names are unconstrained, inserting node 0,1,2,... in
 * that order covers EVERY insertion order of every set of names.
 *
 * Post: each directory's child list is strictly strcmp-sorted (=> unique
 * => identical for every insertion order); inode numbers are a dense
 * 1..N assignment that follows the sorted order (children of subdirectories
 * first, then the directory's own children in list order, root last), the
 * inode table maps number i to the node carrying it, the file list visits
 * regular files in sorted tree order.
 */
#include "vp.h"
#ifndef K
#define K 3	/* children of the root */
#endif
#ifndef S
#define S 1	/* children of the (first) subdirectory */
#endif
#ifndef NL
#define NL 2
#endif
#include "lib/fstree/src/fstree.c"
#undef _
#include "lib/fstree/src/post_process.c"

typedef struct { tree_node_t n; char name[NL + 1]; } nodew_t;
static nodew_t ROOT, KID[K], SUB[S + 1];
static tree_node_t *TBL[K + S + 2];
static fstree_t FS;

static void mk(nodew_t *w, int allow_dir)
{
	unsigned t = ND_U32();
	for (int i = 0; i < NL; ++i)
		w->name[i] = (char)ND_U8();
	w->name[NL] = 0;
	VP_ASSUME(w->name[0] != 0);
	w->n.name = w->name;
	VP_ASSUME(t < 3);
	w->n.mode = (t == 0 ? S_IFREG : (t == 1 ? S_IFIFO : (allow_dir ? S_IFDIR : S_IFCHR))) | 0644;
	w->n.link_count = 1;
}

static void check_sorted(tree_node_t *dir, int max)
{
	tree_node_t *it = dir->data.children;
	for (int i = 0; i < max; ++i) {
		if (it == NULL || it->next == NULL)
			break;
		VP_ASSERT(strcmp(it->name, it->next->name) < 0, "C11: child list is strictly sorted by name whatever the insertion order");
		it = it->next;
	}
}

#ifndef MODE
#define MODE 1
#endif

#if MODE == 1
/* every insertion order of every name set yields the unique sorted list */
void harness(void)
{
	tree_node_t *it;
	size_t i;

	ROOT.name[0] = 0;
	ROOT.n.name = ROOT.name;
	ROOT.n.mode = S_IFDIR | 0755;
	for (i = 0; i < K; ++i) {
		mk(&KID[i], 1);
		for (size_t j = 0; j < i; ++j)
			VP_ASSUME(strcmp(KID[i].name, KID[j].name) != 0);	/* fstree_add_generic rejects duplicates (EEXIST) */
		insert_sorted(&ROOT.n, &KID[i].n);
	}
	check_sorted(&ROOT.n, K);
	for (i = 0, it = ROOT.n.data.children; i < K + 1 && it != NULL; ++i, it = it->next)
		VP_ASSERT(it->parent == &ROOT.n, "children know their parent");
	VP_ASSERT(i == K && it == NULL, "every inserted node is in the list exactly once");
	VP_REACH("flat");
}
#elif MODE == 3
/*
 * child_by_name(): the lookup every insertion goes through (duplicate
 * detection, implicit directories).  It must find a sibling iff its name is
 * EXACTLY the queried component - otherwise whether "lib" is taken for
 * "lib64" depends on which of the two the host returned first.
 */
void harness(void)
{
	char q[NL + 2];
	size_t i, len = ND_SZ();
	tree_node_t *r;
	int exists = 0;

	ROOT.name[0] = 0;
	ROOT.n.name = ROOT.name;
	ROOT.n.mode = S_IFDIR | 0755;
	for (i = 0; i < K; ++i) {
		mk(&KID[i], 1);
		for (size_t j = 0; j < i; ++j)
			VP_ASSUME(strcmp(KID[i].name, KID[j].name) != 0);
		insert_sorted(&ROOT.n, &KID[i].n);
	}
	/* the query is a path component: len bytes, followed by anything ('/' or NUL in practice) */
	for (i = 0; i < NL + 2; ++i) q[i] = (char)ND_U8();
	VP_ASSUME(len >= 1 && len <= NL);
	for (i = 0; i < NL; ++i) if (i < len) VP_ASSUME(q[i] != 0);

	r = child_by_name(&ROOT.n, q, len);

	for (i = 0; i < K; ++i)
		if (strlen(KID[i].name) == len && memcmp(KID[i].name, q, len) == 0)
			exists = 1;
	if (r != NULL) {
		VP_ASSERT(strlen(r->name) == len && memcmp(r->name, q, len) == 0, "C11: a lookup only ever returns the sibling whose name is exactly the component (never a longer name it is a prefix of)");
		VP_REACH("found");
	} else {
		VP_ASSERT(!exists, "C11: an existing sibling is always found");
		VP_REACH("not_found");
	}
}
#else
/*
 * numbering / inode table / data order are a function of the sorted list
 * STRUCTURE only: the structure root -> [k0, k1(dir) -> [s0..], k2 ...] is
 * fixed, every other attribute (names, permission bits, non-directory types,
 * uid, ...) is symbolic, and the results must be the constants below.
 */
void harness(void)
{
	tree_node_t *f;
	size_t i, nfiles = 0;
	sqfs_u32 expect = 1;

	ROOT.name[0] = 0;
	ROOT.n.name = ROOT.name;
	ROOT.n.mode = S_IFDIR | 0755;
	FS.root = &ROOT.n;
	for (i = 0; i < K; ++i) {
		for (int c = 0; c < NL; ++c) KID[i].name[c] = (char)ND_U8();
		KID[i].name[NL] = 0;
		KID[i].n.name = KID[i].name;
		KID[i].n.uid = ND_U32();
		KID[i].n.mod_time = ND_U32();
		KID[i].n.parent = &ROOT.n;
		KID[i].n.next = (i + 1 < K) ? &KID[i + 1].n : NULL;
		KID[i].n.mode = (i % 2 == 0 ? S_IFREG : S_IFIFO) | 0644;
		KID[i].n.gid = ND_U32();
	}
	ROOT.n.data.children = &KID[0].n;
	if (K > 1) {
		KID[1].n.mode = S_IFDIR | 0755;
		for (i = 0; i < S; ++i) {
			for (int c = 0; c < NL; ++c) SUB[i].name[c] = (char)ND_U8();
			SUB[i].name[NL] = 0;
			SUB[i].n.name = SUB[i].name;
			SUB[i].n.parent = &KID[1].n;
			SUB[i].n.next = (i + 1 < S) ? &SUB[i + 1].n : NULL;
			SUB[i].n.mode = (i % 2 == 0 ? S_IFREG : S_IFCHR) | 0600;
			SUB[i].n.uid = ND_U32();
		}
		KID[1].n.data.children = S > 0 ? &SUB[0].n : NULL;
	}

	VP_ASSERT(alloc_inode_num_dfs(&FS, &ROOT.n) == 0, "numbering succeeds");
	if (K > 1)
		for (i = 0; i < S; ++i)
			VP_ASSERT(SUB[i].n.inode_num == expect++, "C03/C11: children of a subdirectory are numbered first, in list order");
	for (i = 0; i < K; ++i)
		VP_ASSERT(KID[i].n.inode_num == expect++, "C03/C11: inode numbers follow the sorted child list, dense 1..N");
	VP_ASSERT(FS.unique_inode_count == expect - 1, "every non-root node got exactly one number");
	ROOT.n.inode_num = expect;
	FS.unique_inode_count = expect;
	if (K > 1)
		for (i = 0; i < S; ++i)
			VP_ASSERT(SUB[i].n.inode_num < KID[1].n.inode_num, "C03: a directory's number exceeds its children's");

	FS.inodes = TBL;
	map_inodes_dfs(&FS, &ROOT.n);
	for (i = 0; i < K + S + 1; ++i)
		if (i < FS.unique_inode_count)
			VP_ASSERT(FS.inodes[i] != NULL && FS.inodes[i]->inode_num == i + 1, "C03: inode table slot i holds the node numbered i+1");

	/* data order: k0, (s0, s2, ...), k2, k4 ... = regular files in tree order */
	f = file_list_dfs(&ROOT.n);
	for (i = 0; i < K; ++i) {
		if (i == 1 && K > 1) {
			for (size_t j = 0; j < S; j += 2) {
				VP_ASSERT(f == &SUB[j].n, "C11: file data order follows the sorted tree");
				f = f ? f->next_by_type : NULL;
				nfiles++;
			}
		} else if (i % 2 == 0) {
			VP_ASSERT(f == &KID[i].n, "C11: file data order follows the sorted tree");
			f = f ? f->next_by_type : NULL;
			nfiles++;
		}
	}
	VP_ASSERT(f == NULL, "each regular file is listed exactly once");
	VP_REACH("with_subdir");
}
#endif
