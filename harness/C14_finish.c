/*
 * C14 O-2 / C03 O-6: ordering protocol of sqfs_writer_finish().
 * real code: lib/common/src/writer/finish.c, lib/sqfs/src/write_super.c
 * env: every sub-writer (block processor finish, tree serialisation, fragment
 *      / export / id table writers, xattr flush) is a stub that appends a
 *      symbolic number (0..2) of chunks through the monitored memfile, sets
 *      "its" superblock field the way the real one does (start offset of its
 *      table = file size when it ran), and may fail.
 * Monitor (on the write log of the memfile):
 *   - bytes [0,96) are written exactly once, by sqfs_super_write, after every
 *     sub-writer write; only padding appends follow it;
 *   - super.bytes_used == file size at that moment; final size is a multiple
 *     of the device block size;
 *   - if any sub-writer fails the superblock is NOT written and -1 returned.
 */
#define VP_IMG 160
#define VP_MAXIO 96
#define VP_WLOG 16
#include "vp_sqfs_stubs.h"
#include "simple_writer.h"
#include "common.h"

static int any_failed, diag;
static unsigned order, ord_data, ord_tree, ord_frag, ord_exp, ord_id, ord_xattr;
static sqfs_writer_t W;

static int sub(unsigned *ord, sqfs_u64 *field)
{
	unsigned k, n = ND_U32();
	unsigned char b[2] = { 0x55, 0x55 };
	*ord = ++order;
	VP_ASSUME(n <= 2);
	if (field != NULL)
		*field = vp_img_size;
	for (k = 0; k < 2; ++k)
		if (k < n && vp_file_write_at(&vp_file, vp_img_size, b, 1 + (k & 1)) != 0) {
			any_failed = 1;
			return SQFS_ERROR_IO;
		}
	if (ND_BOOL()) {
		any_failed = 1;
		return SQFS_ERROR_IO;
	}
	return 0;
}

int sqfs_block_processor_finish(sqfs_block_processor_t *p) { (void)p; return sub(&ord_data, NULL); }
/* documented: "Prints error messages to stderr on failure" */
int sqfs_serialize_fstree(const char *fn, sqfs_writer_t *wr) { (void)fn; if (sub(&ord_tree, &wr->super.inode_table_start)) { diag++; return -1; } return 0; }
int sqfs_frag_table_write(sqfs_frag_table_t *t, sqfs_file_t *f, sqfs_super_t *s, sqfs_compressor_t *c)
{ (void)t; (void)f; (void)c; return sub(&ord_frag, &s->fragment_table_start); }
int sqfs_dir_writer_write_export_table(sqfs_dir_writer_t *w, sqfs_file_t *f, sqfs_compressor_t *c, sqfs_u32 n, sqfs_u64 r, sqfs_super_t *s)
{ (void)w; (void)f; (void)c; (void)n; (void)r; return sub(&ord_exp, &s->export_table_start); }
int sqfs_id_table_write(sqfs_id_table_t *t, sqfs_file_t *f, sqfs_super_t *s, sqfs_compressor_t *c)
{ (void)t; (void)f; (void)c; s->id_count = 1; return sub(&ord_id, &s->id_table_start); }
int sqfs_xattr_writer_flush(const sqfs_xattr_writer_t *x, sqfs_file_t *f, sqfs_super_t *s, sqfs_compressor_t *c)
{ (void)x; (void)f; (void)c; return sub(&ord_xattr, &s->xattr_id_table_start); }
void sqfs_perror(const char *file, const char *action, int code) { (void)file; (void)action; (void)code; diag++; }
void perror(const char *s) { (void)s; diag++; }
void fstree_collect_stats(const fstree_t *fs, fstree_stats_t *out) { (void)fs; (void)out; }
void print_size(sqfs_u64 size, char *buffer, bool round_to_int) { (void)size; (void)round_to_int; buffer[0] = 0; }
const sqfs_block_processor_stats_t *sqfs_block_processor_get_stats(const sqfs_block_processor_t *p) { (void)p; return NULL; }

void harness(void)
{
	sqfs_writer_cfg_t cfg;
	tree_node_t root;
	unsigned blk = ND_U32(), i, super_writes = 0, super_idx = 0;
	sqfs_u64 size_at_super = 0;
	int ret;

	memset(&cfg, 0, sizeof(cfg));
	memset(&root, 0, sizeof(root));
	cfg.filename = "out";
	cfg.quiet = true;
	cfg.exportable = ND_BOOL();
	cfg.no_xattr = ND_BOOL();
	VP_ASSUME(blk == 4 || blk == 8 || blk == 16);	/* device block size, scaled */
	cfg.devblksize = blk;

	W.outfile = vp_file_init();
	W.fs.root = &root;
	W.fs.unique_inode_count = ND_U32();
	sqfs_super_init(&W.super, 4096, 0, SQFS_COMP_GZIP);
	/* state after init + packing: provisional superblock + some data */
	vp_img_size = ND_U64();
	VP_ASSUME(vp_img_size >= 96 && vp_img_size <= 100);

#ifdef IOFAIL
	vp_io_may_fail = 1;	/* also the superblock write and the padding may fail */
#endif
	ret = sqfs_writer_finish(&W, &cfg);

	for (i = 0; i < VP_WLOG; ++i) {
		if (i < vp_wlog_n && vp_wlog_off[i] < 96) {
			super_writes++;
			super_idx = i;
			size_at_super = vp_wlog_size_before[i];
		} else if (i < vp_wlog_n) {
			VP_ASSERT(vp_wlog_off[i] == vp_wlog_size_before[i], "C14: every content write is an append (never rewrites earlier bytes)");
		}
	}
	VP_ASSERT(vp_wlog_n <= VP_WLOG, "write log bound");
	if (ret == 0) {
		VP_ASSERT(!any_failed, "C13: a failing sub-writer makes finish fail");
		VP_ASSERT(diag == 0 && !vp_io_failed, "C13: success means no step failed");
		VP_ASSERT(super_writes == 1 && vp_wlog_off[super_idx] == 0 && vp_wlog_len[super_idx] == 96, "the final superblock is written exactly once at offset 0");
		VP_ASSERT(W.super.bytes_used == size_at_super, "C03: bytes_used is the file size at the moment the superblock is committed");
		VP_ASSERT(super_idx + 2 >= vp_wlog_n, "C14: the superblock write is the last write except for the padding");
		if (super_idx + 1 < vp_wlog_n)
			VP_ASSERT(vp_wlog_off[super_idx + 1] == W.super.bytes_used, "padding is appended behind bytes_used");
		VP_ASSERT(vp_img_size % blk == 0, "C03: image is padded to the device block size");
		VP_ASSERT(ord_data < ord_tree && ord_tree < ord_frag && ord_frag < ord_id, "tables are written in the documented order");
		VP_ASSERT(W.super.inode_table_start <= W.super.fragment_table_start && W.super.fragment_table_start <= W.super.id_table_start &&
			  W.super.id_table_start <= W.super.bytes_used, "C03: table start fields are ordered and inside bytes_used");
		VP_ASSERT(cfg.exportable ? (ord_exp > ord_frag && ord_exp < ord_id) : (ord_exp == 0 && W.super.export_table_start == ~0ULL), "export table only when requested");
		VP_ASSERT(cfg.no_xattr ? ord_xattr == 0 : ord_xattr > ord_id, "xattr tables last, only when enabled");
		VP_ASSERT(W.super.inode_count == (sqfs_u32)W.fs.unique_inode_count, "inode_count announces the unique inodes of the tree");
		VP_REACH("finished");
	} else {
		VP_ASSERT(super_writes == 0 || !any_failed, "C14: no superblock is committed after a sub-writer failed");
		VP_ASSERT(diag >= 1, "C13: a failing finish prints a diagnostic");
		VP_REACH("failed");
	}
}
