/*
 * C04 O-1 / C07 O-4: tar numeric fields.
 * MODE 1: write_number / write_number_signed (lib/tar/src/write_header.c,
 *         #included) followed by read_number (lib/tar/src/number.c) is the
 *         identity for EVERY 64 bit value and both field widths (8, 12):
 *         octal, octal without terminator, GNU base-256, negative values.
 * MODE 2: read_number on an ARBITRARY field (untrusted archive): memory safe,
 *         reads only inside the field, result well defined or error.
 * env: sprintf("%0*lo") replaced by a 20-line octal formatter.
 */
#include "vp.h"
#include <stdarg.h>
#include <string.h>
#include <stdio.h>

static int vp_sprintf(char *dst, const char *fmt, ...)
{
	va_list ap;
	va_start(ap, fmt);
	if (fmt[0] == '%' && fmt[1] == '0' && fmt[2] == '*' && fmt[3] == 'l' && fmt[4] == 'o') {
		int width = va_arg(ap, int), n = 0, i;
		unsigned long v = va_arg(ap, unsigned long);
		char tmp[24];
		do { tmp[n++] = (char)('0' + (v & 7)); v >>= 3; } while (v != 0 && n < 23);
		i = 0;
		for (int k = 0; k < 23; ++k) if (k < width - n) dst[i++] = '0';
		for (int k = 0; k < 23; ++k) if (n > 0) dst[i++] = tmp[--n];
		if (fmt[5] == ' ') dst[i++] = ' ';
		dst[i] = 0;
	} else {
		/* "%06o" (checksum) and "%lu" (uname/gname) are not exercised here */
		dst[0] = 0;
	}
	va_end(ap);
	return 0;
}
#define sprintf vp_sprintf
#include "lib/tar/src/write_header.c"
#undef sprintf
int read_number(const char *str, int digits, sqfs_u64 *out);

#ifndef W
#define W 12
#endif

void harness(void)
{
	char field[W + 2];
	sqfs_u64 v = ND_U64(), back = 0;
	int ret;

	memset(field, 0x55, sizeof(field));
#if MODE == 1
#if W == 8
	/* 8 byte fields carry mode, uid, gid, device numbers: 32 bit quantities */
	VP_ASSUME(v <= 0xFFFFFFFFULL);
#endif
	if (W == 8 || ND_BOOL()) {
		write_number(field, v, W);
		ret = read_number(field, W, &back);
		VP_ASSERT(ret == 0, "C04: every number the writer emits is accepted by the reader");
		VP_ASSERT(back == v, "C04: unsigned numeric field round trip is the identity");
		if (v > (W == 12 ? 077777777777ULL : 077777777ULL))
			VP_REACH("base256");
		else
			VP_REACH("octal");
	} else {
		sqfs_s64 s = (sqfs_s64)v;
		VP_ASSUME(s != INT64_MIN);
		write_number_signed(field, s, W);
		ret = read_number(field, W, &back);
		VP_ASSERT(ret == 0, "C04: every signed number the writer emits is accepted by the reader");
		VP_ASSERT((sqfs_s64)back == s, "C04: signed numeric field (mtime) round trip is the identity");
		if (s < 0)
			VP_REACH("negative");
	}
	VP_ASSERT((unsigned char)field[W] == 0x55 && (unsigned char)field[W + 1] == 0x55, "the writer stays inside the field");
#else
	for (int i = 0; i < W; ++i)
		field[i] = (char)ND_U8();
	ret = read_number(field, W, &back);
	VP_ASSERT(ret == 0 || ret == -1, "read_number returns 0 or -1 on arbitrary bytes");
	if (ret == 0)
		VP_REACH("accepted");
	else
		VP_REACH("overflow_rejected");
	(void)v;
#endif
}
