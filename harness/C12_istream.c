/*
 * C12 O-2: buffered input stream over read() with arbitrary short counts,
 * EINTR, EIO: the bytes handed to the consumer are exactly the source bytes
 * in order; end-of-file is reported only after everything was delivered; a
 * request for `want` bytes is honoured unless the source ends.
 * real code: lib/sqfs/src/io/istream.c (#included, BUFSZ scaled by hook)
 */
#ifndef BUF
#define BUF 4
#endif
#ifndef K
#define K 3
#endif
#define VP_SRC (BUF + 3)
#define VP_XFER_MAX BUF
#include "vp_syscalls.h"
#include "lib/sqfs/src/io/istream.c"

static file_istream_t IS;

void harness(void)
{
	sqfs_istream_t *s = (sqfs_istream_t *)&IS;
	size_t consumed = 0, i;
	int ret = 0, k;

	for (i = 0; i < VP_SRC; ++i)
		vp_src[i] = ND_U8();
	vp_src_len = ND_SZ();
	VP_ASSUME(vp_src_len <= VP_SRC);
	IS.fd = 3;

	for (k = 0; k < K; ++k) {
		const sqfs_u8 *p;
		size_t avail, want = ND_SZ(), adv = ND_SZ();
		VP_ASSUME(want <= BUF + 2);
		ret = file_get_buffered_data(s, &p, &avail, want);
		if (ret < 0) {
			VP_ASSERT(vp_sys_eio, "stream fails only on an I/O error (EINTR and short reads are retried)");
			VP_REACH("io_error");
			return;
		}
		VP_ASSERT(!vp_sys_eio, "an I/O error is never swallowed");
		if (ret > 0) {
			VP_ASSERT(consumed == vp_src_len, "C12: end-of-file is reported only after every source byte was delivered (a short read is not EOF)");
			VP_ASSERT(avail == 0, "EOF comes with an empty chunk");
			VP_REACH("eof");
			return;
		}
		VP_ASSERT(avail <= BUF && consumed + avail <= vp_src_len, "chunk lies inside the source");
		VP_ASSERT(avail >= 1, "a successful call delivers data");
		VP_ASSERT(avail >= (want < BUF ? want : BUF) || consumed + avail == vp_src_len,
			  "C12: at least `want` bytes are delivered unless the source ends there (short reads are topped up)");
		for (i = 0; i < BUF; ++i)
			if (i < avail)
				VP_ASSERT(p[i] == vp_src[consumed + i], "C12: delivered bytes are the source bytes in order, whatever the split");
		VP_ASSUME(adv <= avail + 1);
		file_advance_buffer(s, adv);
		consumed += adv < avail ? adv : avail;
	}
	if (vp_sys_short > 0)
		VP_REACH("more_after_short_reads");
	VP_REACH("more");
}
