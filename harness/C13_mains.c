/*
 * C13: the exit protocol of the two packers and gensquashfs' per-file packing
 * step, with a fault injected at EVERY step (each callee is a stub that may
 * fail nondeterministically).
 *
 * MODE 1  bin/tar2sqfs/src/tar2sqfs.c main()      (#included, renamed)
 * MODE 2  bin/gensquashfs/src/mkfs.c main()       (#included, renamed)
 * MODE 3  bin/gensquashfs/src/mkfs.c pack_file()/pack_files()
 *
 * MODE 1/2 prove: the exit status is EXIT_SUCCESS iff every step succeeded;
 * once the writer has been initialised, sqfs_writer_cleanup() runs exactly
 * once and gets exactly the status that main returns (so a failed run removes
 * its output, see cleanup_unlinks_on_failure); no step runs after a failed one;
 * the input iterator / sort stream are released exactly once.
 * MODE 3 proves: any failing step makes pack_file fail with a diagnostic, the
 * data is flushed on success, the native handle is closed exactly once (by
 * the stream that owns it or directly), both streams are released exactly
 * once, and pack_files stops at the first failing file.
 */
#include "vp.h"
#include <stdlib.h>
#include <string.h>
#include <stdio.h>
#include "sqfs/predef.h"

static int step, failed_at, diag;
static int cleanup_calls, cleanup_status = -1000, init_ok;
static int drops_tar, drops_in, drops_sort, drops_dir, selinux_closed;
/* one step of the run: fails nondeterministically; nothing may run after a failure */
static int stepf(void)
{
	VP_ASSERT(failed_at == 0, "C13: no further step runs after a failed one");
	step++;
	if (ND_BOOL()) { failed_at = step; return 1; }
	return 0;
}
static void dtor_tar(sqfs_object_t *o) { (void)o; drops_tar++; }
static void dtor_in(sqfs_object_t *o) { (void)o; drops_in++; }
static void dtor_sort(sqfs_object_t *o) { (void)o; drops_sort++; }
static void dtor_dir(sqfs_object_t *o) { (void)o; drops_dir++; }

#if MODE == 1
#include "tar2sqfs.h"
bool dont_skip, keep_time, no_tail_pack, no_symlink_retarget;
sqfs_writer_cfg_t cfg;
char *root_becomes;
strlist_t excludedirs;
static sqfs_istream_t IN;
static sqfs_dir_iterator_t TAR;
void process_args(int argc, char **argv) { (void)argc; (void)argv; }
void sqfs_perror(const char *f, const char *a, int c) { (void)f; (void)a; (void)c; diag++; }
int istream_open_stdin(sqfs_istream_t **out)
{
	if (stepf()) return SQFS_ERROR_IO;
	IN.base.refcount = 1; IN.base.destroy = dtor_in; *out = &IN; return 0;
}
sqfs_dir_iterator_t *tar_open_stream(sqfs_istream_t *s, tar_iterator_opts *o)
{
	(void)o;
	VP_ASSERT(s == &IN, "tar reader wraps stdin");
	if (stepf()) return NULL;
	/* the real iterator takes its own reference */
	IN.base.refcount++;
	TAR.obj.refcount = 1; TAR.obj.destroy = dtor_tar; return &TAR;
}
int sqfs_writer_init(sqfs_writer_t *w, const sqfs_writer_cfg_t *c) { (void)w; (void)c; if (stepf()) { diag++; return -1; } init_ok = 1; return 0; }
int process_tarball(sqfs_dir_iterator_t *it, sqfs_writer_t *w) { (void)w; VP_ASSERT(it == &TAR, "iterator"); if (stepf()) { diag++; return -1; } return 0; }
int fstree_post_process(fstree_t *fs) { (void)fs; if (stepf()) { diag++; return -1; } return 0; }
int sqfs_writer_finish(sqfs_writer_t *w, const sqfs_writer_cfg_t *c) { (void)w; (void)c; if (stepf()) { diag++; return -1; } return 0; }
void sqfs_writer_cleanup(sqfs_writer_t *w, int status) { (void)w; cleanup_calls++; cleanup_status = status; }
#define fputs(s, f) ((void)(diag++))
#define main tar2sqfs_main
#include "bin/tar2sqfs/src/tar2sqfs.c"
#undef main

void harness(void)
{
	int rc = tar2sqfs_main(0, NULL);
	VP_ASSERT((rc == EXIT_SUCCESS) == (failed_at == 0 && step == 6), "C13: exit status 0 iff every step of the run succeeded");
	VP_ASSERT(rc == EXIT_SUCCESS || rc == EXIT_FAILURE, "exit status");
	VP_ASSERT(rc == EXIT_SUCCESS || diag >= 1, "C13: a failing run prints a diagnostic");
	VP_ASSERT(cleanup_calls == (init_ok ? 1 : 0), "C13: the writer is cleaned up exactly once iff it was initialised");
	VP_ASSERT(!init_ok || cleanup_status == rc, "C13: cleanup gets the real exit status (a failed run removes its output)");
	VP_ASSERT(drops_tar == (step >= 2 && failed_at != 2 && failed_at != 1 ? 1 : 0), "tar iterator released exactly once");
	if (step >= 1 && failed_at != 1)
		VP_ASSERT(failed_at == 2 ? drops_in == 1 : (drops_in == 0 && IN.base.refcount == 1),
			  "main gives up its reference to the stdin wrapper exactly once (the tar iterator keeps its own)");
	if (rc == EXIT_SUCCESS) VP_REACH("success"); else VP_REACH("failure");
}
#elif MODE == 2 || MODE == 3
#include "mkfs.h"
static sqfs_istream_t SORT, FIN;
static sqfs_ostream_t FOUT;
static sqfs_dir_iterator_t DIR;
static int xattr_opened, selinux_opened, native_open, native_closed, flushed, splices, in_owns_handle, drops_fin, drops_fout;
static options_t *OPT;
void sqfs_perror(const char *f, const char *a, int c) { (void)f; (void)a; (void)c; diag++; }
void process_command_line(options_t *opt, int argc, char **argv)
{
	(void)argc; (void)argv;
	memset(opt, 0, sizeof(*opt));
	opt->selinux = ND_BOOL() ? "ctx" : NULL;
	opt->xattr_file = ND_BOOL() ? "map" : NULL;
	opt->sortfile = ND_BOOL() ? "sort" : NULL;
	opt->infile = ND_BOOL() ? "pack" : NULL;
	opt->cfg.quiet = true;
	opt->cfg.block_size = 4096;
	opt->no_tail_packing = ND_BOOL();
	OPT = opt;
}
int sqfs_writer_init(sqfs_writer_t *w, const sqfs_writer_cfg_t *c) { (void)c; memset(w, 0, sizeof(*w)); if (stepf()) { diag++; return -1; } init_ok = 1; return 0; }
void *selinux_open_context_file(const char *fn) { (void)fn; if (stepf()) { diag++; return NULL; } selinux_opened = 1; return &selinux_opened; }
void selinux_close_context_file(void *h) { VP_ASSERT(h == &selinux_opened, "handle"); selinux_closed++; }
void *xattr_open_map_file(const char *p) { (void)p; if (stepf()) { diag++; return NULL; } xattr_opened = 1; return &xattr_opened; }
int sqfs_istream_open_file(sqfs_istream_t **out, const char *p, sqfs_u32 fl)
{
	(void)p; (void)fl;
	if (stepf()) return SQFS_ERROR_IO;
	SORT.base.refcount = 1; SORT.base.destroy = dtor_sort; *out = &SORT; return 0;
}
sqfs_dir_iterator_t *dir_tree_iterator_create(const char *p, const dir_tree_cfg_t *c)
{
	(void)p; (void)c;
	if (stepf()) { diag++; return NULL; }
	DIR.obj.refcount = 1; DIR.obj.destroy = dtor_dir; return &DIR;
}
int scan_directory(fstree_t *fs, sqfs_dir_iterator_t *d, size_t pl, const char *fp) { (void)fs; (void)pl; (void)fp; VP_ASSERT(d == &DIR, "dir"); if (stepf()) { diag++; return -1; } return 0; }
int fstree_from_file(fstree_t *fs, const char *fn, const options_t *o) { (void)fs; (void)fn; (void)o; if (stepf()) { diag++; return -1; } return 0; }
int fstree_post_process(fstree_t *fs) { (void)fs; if (stepf()) { diag++; return -1; } return 0; }
int apply_xattrs(fstree_t *fs, const options_t *o, void *se, void *xm, sqfs_xattr_writer_t *x) { (void)fs; (void)o; (void)se; (void)xm; (void)x; if (stepf()) { diag++; return -1; } return 0; }
int fstree_sort_files(fstree_t *fs, sqfs_istream_t *s) { (void)fs; VP_ASSERT(s == &SORT, "sort stream"); if (stepf()) { diag++; return -1; } return 0; }
int sqfs_writer_finish(sqfs_writer_t *w, const sqfs_writer_cfg_t *c) { (void)w; (void)c; if (stepf()) { diag++; return -1; } return 0; }
void sqfs_writer_cleanup(sqfs_writer_t *w, int status) { (void)w; cleanup_calls++; cleanup_status = status; }
char *fstree_get_path(tree_node_t *n) { (void)n; if (stepf()) return NULL; { char *p = malloc(2); if (p) { p[0] = 'a'; p[1] = 0; } return p; } }
int canonicalize_name(char *s) { (void)s; return 0; }
int chdir(const char *p) { (void)p; return stepf() ? -1 : 0; }
#define perror(s) ((void)(diag++))

/* pack_file environment */
static void dtor_fin(sqfs_object_t *o) { (void)o; drops_fin++; if (in_owns_handle) native_closed++; }
static void dtor_fout(sqfs_object_t *o) { (void)o; drops_fout++; }
static int flush_stub(sqfs_ostream_t *s) { (void)s; if (stepf()) return SQFS_ERROR_IO; flushed++; return 0; }
int sqfs_native_file_open(sqfs_file_handle_t *out, const char *p, sqfs_u32 fl)
{
	(void)p; (void)fl;
	*out = -1;
	if (stepf()) return SQFS_ERROR_IO;
	*out = 7; native_open++; return 0;
}
void sqfs_native_file_close(sqfs_file_handle_t h) { if (h == 7) native_closed++; else VP_ASSERT(h == -1, "C13: only the handle that was opened (or the invalid handle) is ever closed"); }
int sqfs_native_file_get_size(sqfs_file_handle_t h, sqfs_u64 *out) { VP_ASSERT(h == 7, "handle"); if (stepf()) return SQFS_ERROR_IO; *out = ND_U64(); return 0; }
int sqfs_istream_open_handle(sqfs_istream_t **out, const char *p, sqfs_file_handle_t h, sqfs_u32 fl)
{
	(void)p; (void)fl;
	VP_ASSERT(h == 7, "handle");
	if (stepf()) return SQFS_ERROR_ALLOC;
	FIN.base.refcount = 1; FIN.base.destroy = dtor_fin; in_owns_handle = 1; *out = &FIN; return 0;
}
static sqfs_u32 ostream_flags;
int sqfs_block_processor_create_ostream(sqfs_ostream_t **out, const char *fn, sqfs_block_processor_t *p, sqfs_inode_generic_t **ino, sqfs_u32 fl)
{
	(void)fn; (void)p; (void)ino;
	if (stepf()) return SQFS_ERROR_ALLOC;
	ostream_flags = fl;
	FOUT.base.refcount = 1; FOUT.base.destroy = dtor_fout; FOUT.flush = flush_stub; *out = &FOUT; return 0;
}
sqfs_s32 sqfs_istream_splice(sqfs_istream_t *in, sqfs_ostream_t *out, sqfs_u32 size)
{
	(void)size;
	VP_ASSERT(in == &FIN && out == &FOUT, "splice from the input to the block processor stream");
	if (stepf()) return SQFS_ERROR_IO;
	splices++;
	return (splices < 3 && ND_BOOL()) ? 1 : 0;	/* > 0: more data, 0: end of file */
}
#define main gensquashfs_main
#include "bin/gensquashfs/src/mkfs.c"
#undef main

#if MODE == 2
/* pack_files is exercised by MODE 3; here it is one step */
void harness(void)
{
	int rc = gensquashfs_main(0, NULL);
	VP_ASSERT((rc == EXIT_SUCCESS) == (failed_at == 0 && init_ok), "C13: exit status 0 iff every step of the run succeeded");
	VP_ASSERT(rc == EXIT_SUCCESS || rc == EXIT_FAILURE, "exit status");
	VP_ASSERT(rc == EXIT_SUCCESS || diag >= 1, "C13: a failing run prints a diagnostic");
	VP_ASSERT(cleanup_calls == (init_ok ? 1 : 0), "C13: the writer is cleaned up exactly once iff it was initialised");
	VP_ASSERT(!init_ok || cleanup_status == rc, "C13: cleanup gets the real exit status (a failed run removes its output)");
	VP_ASSERT(selinux_closed == selinux_opened, "selinux context closed iff opened");
	VP_ASSERT(drops_sort == (SORT.base.refcount ? 1 : 0) && drops_dir == (DIR.obj.refcount ? 1 : 0), "sort stream / directory iterator released exactly once");
	if (rc == EXIT_SUCCESS) VP_REACH("success"); else VP_REACH("failure");
}
#else
static tree_node_t N[2];
void harness(void)
{
	static options_t opt;
	static fstree_t fs;
	unsigned nfiles = ND_U32();
	int rc;
	VP_ASSUME(nfiles >= 1 && nfiles <= 2);
	opt.cfg.quiet = true;
	opt.cfg.block_size = 4096;
	opt.no_tail_packing = ND_BOOL();
	N[0].data.file.input_file = ND_BOOL() ? "in0" : NULL;
	N[0].data.file.flags = ND_U32();
	N[0].next_by_type = nfiles == 2 ? &N[1] : NULL;
	N[1].data.file.input_file = "in1";
	fs.files = &N[0];
	if (nfiles == 1) {
		rc = pack_files(NULL, &fs, &opt);
		VP_ASSERT((rc == 0) == (failed_at == 0), "C13: packing succeeds iff every step succeeded");
		VP_ASSERT(rc == 0 || diag >= 1, "C13: a failing file prints a diagnostic");
		VP_ASSERT(native_closed == native_open, "C13: the input handle is closed exactly once (by its stream or directly)");
		VP_ASSERT(drops_fin == (FIN.base.refcount ? 1 : 0) && drops_fout == (FOUT.base.refcount ? 1 : 0), "both streams are released exactly once");
		VP_ASSERT(rc != 0 || flushed == 1, "C13: the block stream is flushed before success is reported");
		if (FOUT.base.refcount)
			VP_ASSERT((ostream_flags & ~SQFS_BLK_DONT_FRAGMENT) == (N[0].data.file.flags & ~SQFS_BLK_DONT_FRAGMENT), "C17: per-file flags reach the block processor");
		if (rc == 0) VP_REACH("success"); else VP_REACH("failure");
	} else {
		rc = pack_files(NULL, &fs, &opt);
		VP_ASSERT((rc == 0) == (failed_at == 0), "C13: packing succeeds iff every step of every file succeeded");
		VP_ASSERT(rc != 0 || flushed == 2, "every file flushed");
		if (rc == 0) VP_REACH("success"); else VP_REACH("failure");
	}
}
#endif
#endif
