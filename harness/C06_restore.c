/*
 * C06 O-2: every path rdsquashfs hands to a file-system system call while
 * unpacking is a clean relative path below the unpack root, whatever byte
 * strings the image carries as entry names.
 *
 * real code: bin/rdsquashfs/src/restore_fstree.c (#included: restore_fstree,
 *            create_node_dfs, create_node, update_tree_attribs, set_attribs),
 *            lib/common/src/dir_tree.c (sqfs_tree_node_get_path),
 *            lib/util/src/canonicalize_name.c, lib/util/src/filename_sane.c
 * env: recording stubs for mkdir/symlink/mknod/open/close/utimensat/
 *      fchownat/fchmodat; tree: root directory -> child A -> (if A is a
 *      directory) child B.  Names are NL bytes, every byte symbolic (so
 *      shorter names, '/', '.', '..', empty names are all included); inode
 *      types and the unpack flag word are symbolic.
 */
#include "vp.h"
#include <sys/stat.h>
#include <sys/types.h>
#include <fcntl.h>
#include <unistd.h>
#include <string.h>
#include <stdlib.h>
#ifndef NL
#define NL 2
#endif
#define PMAX (2 * NL + 2)

static unsigned calls;
static int saw_bad;
static const char *nameA, *nameB;
static int lenA, lenB;

/* the confinement predicate: relative, no empty / "." / ".." component */
static void vp_check_path(const char *p, const char *what)
{
	int i = 0, comp_start = 0, ncomp = 0;
	(void)what;
	calls++;
	VP_ASSERT(p[0] != '\0', "C06: path given to the kernel is not empty");
	VP_ASSERT(p[0] != '/', "C06: path given to the kernel is relative (never absolute)");
	for (i = 0; i <= PMAX; ++i) {
		if (p[i] == '/' || p[i] == '\0') {
			int l = i - comp_start;
			VP_ASSERT(l != 0, "C06: no empty path component");
			VP_ASSERT(!(l == 1 && p[comp_start] == '.'), "C06: no '.' component");
			VP_ASSERT(!(l == 2 && p[comp_start] == '.' && p[comp_start + 1] == '.'), "C06: no '..' component reaches the kernel");
			ncomp++;
			comp_start = i + 1;
			if (p[i] == '\0')
				break;
		}
	}
	VP_ASSERT(i <= PMAX, "path length within the modelled bound");
	VP_ASSERT(ncomp <= 2, "C06: path depth equals the node's depth in the tree");
	/* the path is the node's ancestor chain, byte for byte */
	VP_ASSERT(strncmp(p, nameA, lenA) == 0 && (p[lenA] == '\0' || (p[lenA] == '/' && strcmp(p + lenA + 1, nameB) == 0)),
		  "C06: path is exactly the chain of entry names from the unpack root");
}

/* SYSFAIL (C13): every system call may fail with EIO; nothing may be called after a failure */
#include <errno.h>
#include <stdio.h>
static int sys_failed, diag;
#ifdef SYSFAIL
#define VP_MAYFAIL() do { VP_ASSERT(!sys_failed, "C13: no further system call after a failed one"); if (ND_BOOL()) { sys_failed = 1; errno = EIO; return -1; } } while (0)
#define fprintf(...) ((void)(diag++))
#define fputs(s, f) ((void)(diag++))
#else
#define VP_MAYFAIL() do { } while (0)
#endif
int mkdir(const char *p, mode_t m) { (void)m; vp_check_path(p, "mkdir"); VP_MAYFAIL(); return 0; }
int symlink(const char *t, const char *p) { (void)t; vp_check_path(p, "symlink"); VP_MAYFAIL(); return 0; }
int mknod(const char *p, mode_t m, dev_t d) { (void)m; (void)d; vp_check_path(p, "mknod"); VP_MAYFAIL(); return 0; }
static int open_flags_ok = 1;
int open(const char *p, int fl, ...) { vp_check_path(p, "open"); if ((fl & (O_CREAT | O_EXCL)) != (O_CREAT | O_EXCL)) open_flags_ok = 0; VP_MAYFAIL(); return 3; }
int close(int fd) { (void)fd; return 0; }
static int nofollow_ok = 1, chmod_on_symlink;
static int cur_is_symlink;
int utimensat(int d, const char *p, const struct timespec t[2], int fl) { (void)t; vp_check_path(p, "utimensat"); if (d != AT_FDCWD || !(fl & AT_SYMLINK_NOFOLLOW)) nofollow_ok = 0; VP_MAYFAIL(); return 0; }
int fchownat(int d, const char *p, uid_t u, gid_t g, int fl) { (void)u; (void)g; vp_check_path(p, "fchownat"); if (d != AT_FDCWD || !(fl & AT_SYMLINK_NOFOLLOW)) nofollow_ok = 0; VP_MAYFAIL(); return 0; }

void sqfs_perror(const char *f, const char *a, int c) { (void)f; (void)a; (void)c; diag++; }

#include "bin/rdsquashfs/src/restore_fstree.c"

static struct { sqfs_tree_node_t n; sqfs_u8 name[NL + 1]; } NA, NB, ROOT;
static sqfs_inode_generic_t IA, IB, IR;
static struct { sqfs_inode_generic_t i; char t[2]; } ISL;

int fchmodat(int d, const char *p, mode_t m, int fl)
{
	(void)m; (void)fl; (void)d;
	vp_check_path(p, "fchmodat");
	/* which node is this?  a symlink must never be chmod'ed (it would follow) */
	if ((strcmp(p, (const char *)NA.n.name) == 0 && S_ISLNK(IA.base.mode)) ||
	    (p[lenA] == '/' && S_ISLNK(IB.base.mode)))
		chmod_on_symlink = 1;
	VP_MAYFAIL();
	return 0;
}

static mode_t pick_type(void)
{
	static const mode_t t[7] = { S_IFREG, S_IFDIR, S_IFLNK, S_IFIFO, S_IFSOCK, S_IFCHR, S_IFBLK };
	unsigned k = ND_U32();
	VP_ASSUME(k < 7);
	return t[k] | 0644;
}

void harness(void)
{
	int flags = ND_I32(), ret, i;

	for (i = 0; i < NL; ++i) {
		NA.n.name[i] = ND_U8();
		NB.n.name[i] = ND_U8();
	}
	NA.n.name[NL] = 0;
	NB.n.name[NL] = 0;
	nameA = (const char *)NA.n.name;
	nameB = (const char *)NB.n.name;
	lenA = (int)strlen(nameA);
	lenB = (int)strlen(nameB);

	IR.base.mode = S_IFDIR | 0755;
	ROOT.n.inode = &IR;
	ROOT.n.children = &NA.n;
	IA.base.mode = pick_type();
	IA.base.type = SQFS_INODE_CDEV;
	NA.n.inode = S_ISLNK(IA.base.mode) ? &ISL.i : &IA;
	ISL.i.base.mode = IA.base.mode;
	ISL.i.base.type = ND_BOOL() ? SQFS_INODE_SLINK : SQFS_INODE_EXT_SLINK;	/* both symlink inode forms */
	ISL.t[0] = 'x';
	NA.n.parent = &ROOT.n;
	if (S_ISDIR(IA.base.mode)) {
		IB.base.mode = pick_type();
		VP_ASSUME(!S_ISDIR(IB.base.mode) && !S_ISLNK(IB.base.mode));
		IB.base.type = SQFS_INODE_CDEV;
		NB.n.inode = &IB;
		NB.n.parent = &NA.n;
		NA.n.children = &NB.n;
	}
	flags &= (UNPACK_CHMOD | UNPACK_CHOWN | UNPACK_QUIET | UNPACK_NO_SPARSE | UNPACK_SET_TIMES);	/* xattr path needs a reader */

	ret = restore_fstree(&ROOT.n, flags | UNPACK_QUIET);
#ifdef SYSFAIL
	VP_ASSERT((ret != 0) == (sys_failed || lenA == 0 || (S_ISDIR(IA.base.mode) && lenB == 0 && is_filename_sane(nameA, true))), "C13: creating the tree fails iff a system call failed (or an entry name is empty)");
	VP_ASSERT(ret == 0 || diag >= 1, "C13: a failing unpack prints a diagnostic");
	if (ret != 0) { VP_REACH("create_failed"); return; }
	ret = update_tree_attribs(NULL, &ROOT.n, flags);
	VP_ASSERT((ret != 0) == (sys_failed != 0), "C13: setting attributes fails iff a system call failed");
	VP_ASSERT(ret == 0 || diag >= 1, "C13: a failing attribute step prints a diagnostic");
	if (ret != 0) VP_REACH("attrib_failed"); else VP_REACH("all_ok");
	return;
#endif
	/* an EMPTY name passes is_filename_sane() and is then refused by
	   sqfs_tree_node_get_path(): the tool fails (allowed by the property) */
	VP_ASSERT(ret == 0 || lenA == 0 || (S_ISDIR(IA.base.mode) && lenB == 0), "unpacking fails only for an empty entry name");
	if (!is_filename_sane(nameA, false)) {
		VP_ASSERT(calls == 0, "C06: an entry with an insane name ('.', '..', with '/', empty) and its whole subtree produce no system call");
		VP_REACH("insane_skipped");
	} else if (calls > 0) {
		VP_REACH("created");
	}
	ret = update_tree_attribs(NULL, &ROOT.n, flags);
	VP_ASSERT(ret == 0 || lenA == 0 || (S_ISDIR(IA.base.mode) && lenB == 0), "attribute step fails only for an empty entry name");
	if (!is_filename_sane(nameA, false))
		VP_ASSERT(calls == 0, "C06: no attribute call for an insane entry either");
	VP_ASSERT(open_flags_ok, "C06: regular files are created with O_CREAT|O_EXCL (never through an existing symlink)");
	VP_ASSERT(nofollow_ok, "C06: ownership and timestamps are set with AT_SYMLINK_NOFOLLOW relative to the current directory");
	VP_ASSERT(!chmod_on_symlink, "C06: fchmodat is never applied to a symlink entry");
}
