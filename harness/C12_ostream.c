/*
 * C12 O-3: output stream over write() with short counts/EINTR/EIO and sparse
 * runs: the bytes reaching the kernel are the appended bytes in order, holes
 * materialised as zeros (NO_SPARSE) or skipped with a seek; size accounting.
 * real code: lib/sqfs/src/io/ostream.c (#included)
 */
#ifndef N
#define N 3
#endif
#ifndef K
#define K 2
#endif
#define VP_OUT (K * N + 2)
#define VP_XFER_MAX (K * N)
#include "vp_syscalls.h"
#include "sqfs/io.h"
#include "sqfs/error.h"

static unsigned vp_seek_calls;
static int vp_seek_fail;
/* lseek(SEEK_CUR)+ftruncate: the hole reads back as zeros */
int sqfs_native_file_seek(sqfs_file_handle_t fd, sqfs_s64 offset, sqfs_u32 flags)
{
	(void)fd;
	vp_seek_calls++;
	VP_ASSERT(flags == (SQFS_FILE_SEEK_CURRENT | SQFS_FILE_SEEK_TRUNCATE), "holes are created by seeking forward and truncating");
	if (ND_BOOL()) {
		vp_seek_fail = 1;
		return SQFS_ERROR_IO;
	}
	VP_ASSERT(offset >= 0 && vp_out_pos + (size_t)offset <= VP_OUT, "seek stays inside the modelled file");
	for (size_t i = 0; i < VP_OUT; ++i)
		if (i >= vp_out_pos && i < vp_out_pos + (size_t)offset)
			vp_out[i] = 0;
	vp_out_pos += (size_t)offset;
	return 0;
}
int fsync(int fd) { (void)fd; return 0; }

#include "lib/sqfs/src/io/ostream.c"

static file_ostream_t OS;

void harness(void)
{
	sqfs_ostream_t *s = (sqfs_ostream_t *)&OS;
	unsigned char data[K][N], expect[VP_OUT];
	size_t total = 0, i;
	int ret = 0, k;

	OS.fd = 3;
	OS.flags = ND_BOOL() ? SQFS_FILE_OPEN_NO_SPARSE : 0;
	for (i = 0; i < VP_OUT; ++i)
		vp_out[i] = 0xAA;

	for (k = 0; k < K; ++k) {
		size_t n = ND_SZ();
		int hole = ND_BOOL();
		VP_ASSUME(n <= N);
		for (i = 0; i < N; ++i) {
			data[k][i] = ND_U8();
			if (i < n)
				expect[total + i] = hole ? 0 : data[k][i];
		}
		ret = file_append(s, hole ? NULL : data[k], n);
		if (ret != 0)
			break;
		total += n;
	}
	if (ret == 0)
		ret = file_flush(s);
	if (ret == 0) {
		VP_ASSERT(!vp_sys_eio && !vp_seek_fail, "an I/O error is never swallowed");
		VP_ASSERT(vp_out_pos == total, "C12: exactly the appended number of bytes reached the file");
		for (i = 0; i < VP_OUT; ++i)
			if (i < total)
				VP_ASSERT(vp_out[i] == expect[i], "C12: file content equals the appended bytes (holes read as zeros), whatever the split");
		if (vp_sys_short > 0)
			VP_REACH("ok_with_short_writes");
		if (vp_seek_calls > 0)
			VP_REACH("ok_with_hole_seek");
		VP_REACH("ok");
	} else {
		VP_ASSERT(vp_sys_eio || vp_seek_fail || ret == SQFS_ERROR_ALLOC, "stream fails only on an I/O error");
		VP_REACH("err");
	}
}
