/*
 * C18: is_filename_sane() accepts a name exactly when it is neither ".",
 * ".." nor contains a slash (check_os_specific == false or non-Windows
 * build).  With -DTEST_WIN32 and check_os_specific == true, the documented
 * extra rules only ever make the function stricter.
 *
 * real code: lib/util/src/filename_sane.c
 */
#include "vp.h"
#include <string.h>

bool is_filename_sane(const char *name, bool check_os_specific);

#ifndef N
#define N 4
#endif

void harness(void)
{
	char name[N + 1];
	bool os = ND_BOOL();
	bool has_slash = false, spec, got;
	size_t i, len = N;

	for (i = 0; i < N; ++i)
		name[i] = (char)ND_U8();
	name[N] = '\0';

	for (i = N; i-- > 0; ) {
		if (name[i] == '\0')
			len = i;
	}
	for (i = 0; i < N; ++i) {
		if (i < len && name[i] == '/')
			has_slash = true;
	}

	spec = !has_slash &&
		!(len == 1 && name[0] == '.') &&
		!(len == 2 && name[0] == '.' && name[1] == '.');

	got = is_filename_sane(name, os);

#ifdef TEST_WIN32
	if (os) {
		VP_ASSERT(!got || spec, "OS specific rules only make the test stricter");
		if (got) {
			for (i = 0; i < N; ++i) {
				if (i < len) {
					char c = name[i];
					VP_ASSERT(c != '<' && c != '>' && c != ':' && c != '"' &&
						  c != '|' && c != '?' && c != '*' && c != '\\' &&
						  !(c >= 1 && c <= 31),
						  "accepted names contain no character reserved on Windows");
				}
			}
		}
	} else {
		VP_ASSERT(got == spec, "sane <=> not '.', not '..', no slash");
	}
#else
	VP_ASSERT(got == spec, "sane <=> not '.', not '..', no slash");
#endif
	if (got)
		VP_REACH("sane");
	else
		VP_REACH("insane");
}
