/*
 * C15 O-1: the decompressing input stream wrapper.
 * real code: lib/xfrm/src/istream.c (#included, BUFSZ scaled by hook)
 * env: source stream stub delivering SRC bytes in arbitrary non-empty chunks
 *      then EOF; identity codec stub for ONE member of MLEN payload bytes +
 *      1 trailer byte with symbolic per-call consumption; like the real
 *      wrappers it answers a finishing call without input with OK /
 *      BUFFER_FULL, never with an error.
 * Post (a): the consumer receives exactly the payload bytes in order,
 *           independent of the chunking;
 * Post (b): if the source ends while the codec is in the middle of a member
 *           (truncated compressed input), the consumer must get an ERROR, not
 *           a clean end-of-file  => recorded known finding (see
 *           known_findings.txt): the wrapper reports plain EOF.
 */
#ifndef MLEN
#define MLEN 2
#endif
#ifndef BUF
#define BUF 2
#endif
#include "vp.h"
#include <string.h>
#include "sqfs/io.h"
#include "sqfs/error.h"
#include "xfrm/stream.h"

static unsigned char src[MLEN + 1];
static unsigned src_len, src_pos, chunk_end;
static int src_get(sqfs_istream_t *s, const sqfs_u8 **out, size_t *size, size_t want)
{
	(void)s; (void)want;
	if (src_pos >= src_len) { *out = NULL; *size = 0; return 1; }
	if (chunk_end <= src_pos) {
		unsigned k = ND_U32();
		VP_ASSUME(k >= 1 && k <= src_len - src_pos);
		chunk_end = src_pos + k;
	}
	*out = src + src_pos;
	*size = chunk_end - src_pos;
	return 0;
}
static void src_adv(sqfs_istream_t *s, size_t n) { (void)s; VP_ASSERT(n <= chunk_end - src_pos, "consumer stays inside the chunk"); src_pos += (unsigned)n; }

static unsigned seen;		/* bytes of the member consumed so far */
static int codec(xfrm_stream_t *s, const void *in, sqfs_u32 in_size, void *out, sqfs_u32 out_size,
		 sqfs_u32 *in_read, sqfs_u32 *out_written, int mode)
{
	unsigned c = ND_U32(), i, produced = 0;
	(void)s;
	if (in_size == 0)
		return (mode == XFRM_STREAM_FLUSH_FULL && ND_BOOL()) ? XFRM_STREAM_BUFFER_FULL : XFRM_STREAM_OK;
	VP_ASSUME(c >= 1 && c <= in_size && c <= (MLEN + 1) - seen);
	for (i = 0; i < MLEN + 1; ++i) {
		if (i < c && seen + i < MLEN) {
			if (produced >= out_size) { c = i; break; }
			((unsigned char *)out)[produced++] = ((const unsigned char *)in)[i];
		}
	}
	seen += c;
	*in_read += c;
	*out_written += produced;
	if (seen == MLEN + 1) { seen = 0; return XFRM_STREAM_END; }
	return XFRM_STREAM_OK;
}

#include "lib/xfrm/src/istream.c"
static istream_xfrm_t IS;
static xfrm_stream_t CODEC;
static sqfs_istream_t SRC;

void harness(void)
{
	unsigned got = 0, i;
	int ret = 0;

	for (i = 0; i < MLEN; ++i) src[i] = ND_U8();
	src[MLEN] = 0x7E;	/* member trailer */
	src_len = ND_U32();
	VP_ASSUME(src_len >= 1 && src_len <= MLEN + 1);	/* < MLEN+1: truncated */
	CODEC.process_data = codec;
	SRC.get_buffered_data = src_get;
	SRC.advance_buffer = src_adv;
	IS.wrapped = &SRC;
	IS.xfrm = &CODEC;

	for (int k = 0; k < MLEN + 3; ++k) {
		const sqfs_u8 *p;
		size_t avail;
		ret = xfrm_get_buffered_data((sqfs_istream_t *)&IS, &p, &avail, 1);
		if (ret != 0)
			break;
		VP_ASSERT(avail >= 1 && got + avail <= MLEN, "delivered data lies inside the payload");
		for (i = 0; i < BUF; ++i)
			if (i < avail)
				VP_ASSERT(p[i] == src[got + i], "C15: decompressed bytes are the payload bytes in order, whatever the chunking");
		got += (unsigned)avail;
		xfrm_advance_buffer((sqfs_istream_t *)&IS, avail);
	}
	if (ret > 0) {
		if (src_len == MLEN + 1) {
			VP_ASSERT(got == MLEN, "C15: a complete stream delivers the whole payload before end-of-file");
			VP_REACH("complete");
		} else {
			VP_REACH("truncated_eof");
			VP_ASSERT(0, "C15: truncated compressed input is reported as an error, never as a clean end-of-file");
		}
	} else if (ret < 0) {
		VP_ASSERT(src_len < MLEN + 1, "errors only for truncated input");
		VP_REACH("error");
	}
}
