/*
 * C17 O-4 / C01 O-5b: effect of the per-file packing flags on one block in
 * the worker function, and how the flags travel from the tree node to the
 * block processor.
 * real code: lib/sqfs/src/block_processor/block_processor.c (#included:
 *            process_block), lib/util/src/is_memory_zero.c
 * env: compressor stub obeying the contract (0, <0, or smaller than input);
 *      xxh32 replaced by a recording stub.
 */
#ifndef BS
#define BS 4
#endif
#define VP_CMP_MAXOUT BS
#include "vp_sqfs_stubs.h"
#include "sqfs/block.h"

static sqfs_u32 hash_calls, hash_len;
sqfs_u32 xxh32(const void *input, const size_t len) { (void)input; hash_calls++; hash_len = (sqfs_u32)len; return 0xABCD0000u | (sqfs_u32)len; }

static unsigned cmp_calls;
static sqfs_s32 cs_do_block(sqfs_compressor_t *c, const sqfs_u8 *in, sqfs_u32 size, sqfs_u8 *out, sqfs_u32 outsize)
{
	sqfs_s32 r = ND_I32();
	(void)c; (void)in;
	cmp_calls++;
	VP_ASSERT(outsize >= size, "worker scratch buffer is at least one block");
	VP_ASSUME(r < (sqfs_s32)size);
	for (sqfs_s32 i = 0; i < BS; ++i)
		if (i < r)
			out[i] = ND_U8();
	return r;
}
#include "lib/sqfs/src/block_processor/block_processor.c"

static struct { sqfs_block_t b; sqfs_u8 pad[BS]; } BLK;
static struct { worker_data_t w; sqfs_u8 pad[BS]; } WK;

void harness(void)
{
	sqfs_block_t *b = &BLK.b;
	sqfs_u8 orig[BS];
	sqfs_u32 flags = ND_U32(), size = ND_U32();
	int allzero = 1, ret;

	vp_cmp_init();
	vp_cmp.do_block = cs_do_block;
	WK.w.cmp = &vp_cmp;
	WK.w.scratch_size = BS;
	VP_ASSUME(size <= BS);
	VP_ASSUME((flags & ~(SQFS_BLK_FLAGS_ALL)) == 0);
	VP_ASSUME(!(flags & (SQFS_BLK_IS_SPARSE | SQFS_BLK_IS_COMPRESSED)));
	b->flags = flags;
	b->size = size;
	for (sqfs_u32 i = 0; i < BS; ++i) {
		b->data[i] = orig[i] = ND_U8();
		if (i < size && orig[i] != 0)
			allzero = 0;
	}
	ret = process_block(&WK.w, b);
	if (ret != 0) {
		VP_ASSERT(ret < 0 && cmp_calls == 1, "the worker fails only when the compressor failed");
		VP_REACH("compressor_error");
		return;
	}
	if (size == 0) {
		VP_ASSERT(b->flags == flags && cmp_calls == 0, "empty block untouched");
		return;
	}
	if (allzero && !(flags & SQFS_BLK_IGNORE_SPARSE)) {
		VP_ASSERT((b->flags & SQFS_BLK_IS_SPARSE) && cmp_calls == 0 && b->size == size, "an all-zero block becomes a sparse block");
		VP_REACH("sparse");
		return;
	}
	VP_ASSERT(!(b->flags & SQFS_BLK_IS_SPARSE), "C17: nosparse (or non-zero data) => the block is materialised, never dropped as sparse");
	if (flags & SQFS_BLK_DONT_HASH)
		VP_ASSERT(b->checksum == 0 && hash_calls == 0, "DONT_HASH => no checksum");
	else
		VP_ASSERT(hash_calls == 1 && hash_len == size && b->checksum == (0xABCD0000u | size), "checksum is taken over the uncompressed block");
	if (flags & (SQFS_BLK_DONT_COMPRESS | SQFS_BLK_IS_FRAGMENT)) {
		VP_ASSERT(cmp_calls == 0 && !(b->flags & SQFS_BLK_IS_COMPRESSED) && b->size == size, "C17: dont_compress (and tail fragments) are stored as they are");
		for (sqfs_u32 i = 0; i < BS; ++i)
			if (i < size)
				VP_ASSERT(b->data[i] == orig[i], "uncompressed payload is the input");
		VP_REACH("stored_raw");
	} else if (b->flags & SQFS_BLK_IS_COMPRESSED) {
		VP_ASSERT(cmp_calls == 1 && b->size >= 1 && b->size < size, "C03: a block marked compressed is smaller than its input");
		VP_REACH("compressed");
	} else {
		VP_ASSERT(cmp_calls == 1 && b->size == size, "incompressible block stored uncompressed");
		for (sqfs_u32 i = 0; i < BS; ++i)
			if (i < size)
				VP_ASSERT(b->data[i] == orig[i], "uncompressed payload is the input");
		VP_REACH("incompressible");
	}
	VP_ASSERT((b->flags & ~(SQFS_BLK_IS_COMPRESSED | SQFS_BLK_IS_SPARSE)) == flags, "the worker changes no other flag");
}
