/*
 * C19: copy of a gzip compressor object (lib/sqfs/src/comp/gzip.c,
 * #included): create -> copy -> use both -> destroy in both orders, with
 * zlib replaced by a recording model: a z_stream is "initialised with"
 * (kind, level, window, memLevel, strategy) and the engine's behaviour is a
 * function of exactly those parameters - so the copy is equivalent to the
 * original iff its stream was initialised with the same tuple.
 * Configuration (level, window, strategy flags, compress/uncompress, block
 * size) is symbolic within the accepted ranges.
 */
#include "vp.h"
#include <stdlib.h>
#include <string.h>
#include <zlib.h>

#define NSTRM 3
static struct { z_streamp s; int kind, level, window, memlevel, strategy, live, ended; } ST[NSTRM];
static unsigned nst;
static int rec_init(z_streamp s, int kind, int level, int window, int memlevel, int strategy)
{
	if (ND_BOOL()) return Z_MEM_ERROR;
	VP_ASSERT(nst < NSTRM, "stream log");
	for (unsigned i = 0; i < NSTRM; ++i) if (i < nst && ST[i].live) VP_ASSERT(ST[i].s != s, "a live stream is never initialised a second time");
	ST[nst].s = s; ST[nst].kind = kind; ST[nst].level = level; ST[nst].window = window; ST[nst].memlevel = memlevel; ST[nst].strategy = strategy; ST[nst].live = 1;
	nst++;
	return Z_OK;
}
static int rec_end(z_streamp s, int kind)
{
	for (unsigned i = 0; i < NSTRM; ++i)
		if (i < nst && ST[i].s == s && ST[i].live) { VP_ASSERT(ST[i].kind == kind, "stream ended with the matching call"); ST[i].live = 0; ST[i].ended++; return Z_OK; }
	VP_ASSERT(0, "C19: only a live, initialised stream is ever ended (no double release through a copy)");
	return Z_STREAM_ERROR;
}
int deflateInit2_(z_streamp s, int level, int method, int windowBits, int memLevel, int strategy, const char *v, int sz) { (void)method; (void)v; (void)sz; return rec_init(s, 1, level, windowBits, memLevel, strategy); }
int deflateInit_(z_streamp s, int level, const char *v, int sz) { (void)v; (void)sz; return rec_init(s, 1, level, 15, 8, Z_DEFAULT_STRATEGY); }
int inflateInit_(z_streamp s, const char *v, int sz) { (void)v; (void)sz; return rec_init(s, 2, 0, 15, 0, 0); }
int inflateInit2_(z_streamp s, int windowBits, const char *v, int sz) { (void)v; (void)sz; return rec_init(s, 2, 0, windowBits, 0, 0); }
int deflateEnd(z_streamp s) { return rec_end(s, 1); }
int inflateEnd(z_streamp s) { return rec_end(s, 2); }
int deflateReset(z_streamp s) { (void)s; return Z_OK; }
int inflateReset(z_streamp s) { (void)s; return Z_OK; }
int deflateParams(z_streamp s, int l, int st) { (void)s; (void)l; (void)st; return Z_OK; }
int deflate(z_streamp s, int f) { (void)s; (void)f; return Z_STREAM_END; }
int inflate(z_streamp s, int f) { (void)s; (void)f; return Z_STREAM_END; }

#include "lib/sqfs/src/comp/gzip.c"

static int find(z_streamp s) { for (unsigned i = 0; i < NSTRM; ++i) if (i < nst && ST[i].s == s) return (int)i; return -1; }

void harness(void)
{
	sqfs_compressor_config_t cfg, ca, cb;
	sqfs_compressor_t *a = NULL;
	gzip_compressor_t *ga, *gb;
	sqfs_object_t *b;
	int ia, ib;

	memset(&cfg, 0, sizeof(cfg));
	cfg.id = SQFS_COMP_GZIP;
	cfg.block_size = 4096;
	cfg.level = ND_U32();
	cfg.opt.gzip.window_size = ND_U16();
	cfg.flags = ND_U16();
	if (gzip_compressor_create(&cfg, &a) != 0) { VP_REACH("rejected"); return; }
	ga = (gzip_compressor_t *)a;
	VP_ASSERT(cfg.level >= SQFS_GZIP_MIN_LEVEL && cfg.level <= SQFS_GZIP_MAX_LEVEL && cfg.opt.gzip.window_size >= SQFS_GZIP_MIN_WINDOW && cfg.opt.gzip.window_size <= SQFS_GZIP_MAX_WINDOW,
		  "only configurations in the documented ranges are accepted");
	VP_ASSERT(a->base.copy == gzip_create_copy && a->base.destroy == gzip_destroy, "hooks");

	b = gzip_create_copy((const sqfs_object_t *)a);
	if (b == NULL) {
		gzip_destroy((sqfs_object_t *)a);
		VP_ASSERT(ST[0].ended == 1, "original released once");
		VP_REACH("copy_failed");
		return;
	}
	gb = (gzip_compressor_t *)b;
	VP_ASSERT(gb != ga && gb->base.base.destroy == gzip_destroy && gb->base.base.copy == gzip_create_copy && gb->base.do_block == gzip_do_block, "copy has the hooks of its kind");
	ia = find(&ga->strm); ib = find(&gb->strm);
	VP_ASSERT(ia >= 0 && ib >= 0 && ia != ib, "C19: the copy owns a stream of its own");
	VP_ASSERT(ST[ia].kind == ST[ib].kind && ST[ia].level == ST[ib].level && ST[ia].window == ST[ib].window && ST[ia].memlevel == ST[ib].memlevel && ST[ia].strategy == ST[ib].strategy,
		  "C19: the copy's codec stream is initialised with exactly the original's parameters (level, window, memory level, strategy), so both produce the same bytes");
	a->get_configuration(a, &ca);
	gb->base.get_configuration(&gb->base, &cb);
	VP_ASSERT(memcmp(&ca, &cb, sizeof(ca)) == 0, "C19: original and copy report the same configuration");
	VP_ASSERT(ST[ia].window == (int)ca.opt.gzip.window_size || ST[ia].kind == 2, "the stream uses the window it reports");

	if (ND_BOOL()) { gzip_destroy((sqfs_object_t *)a); gzip_destroy(b); } else { gzip_destroy(b); gzip_destroy((sqfs_object_t *)a); }
	VP_ASSERT(ST[ia].ended == 1 && ST[ib].ended == 1 && !ST[ia].live && !ST[ib].live, "C19: both release orders end each stream exactly once");
	VP_REACH("copied");
}
