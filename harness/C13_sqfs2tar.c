/*
 * C13: sqfs2tar's main(), write_entry(), write_file_data(),
 * terminate_archive() (bin/sqfs2tar/src/sqfs2tar.c, #included, main renamed)
 * with a fault injected at EVERY step; the image iterator delivers NENT
 * entries of symbolic kind.
 *
 * Proved for every fault position: exit status 0 iff every step succeeded
 * (an unsupported entry type is skipped, or fatal with --no-skip); a failing
 * run prints a diagnostic; nothing runs after the failed step; the archive is
 * terminated (two zero records) and flushed before success is reported; every
 * entry, link target, xattr list, stream and iterator is released exactly
 * once (memory-leak check + counters).
 *
 * Stubs that stand for functions which print their own message on failure
 * (tar_compat_iterator_create, compressor_stream_create, ostream_xfrm_create, padd_file) count a
 * diagnostic; library functions that only return an error code do not.
 */
#include "vp.h"
#include <stdlib.h>
#include <string.h>
#include <stdio.h>
#include <sys/stat.h>
#include "sqfs2tar.h"

bool dont_skip, keep_as_dir, no_xattr, no_links;
char *root_becomes;
strlist_t subdirs;
int compressor;
const char *filename = "img.sqfs";

static int step, failed_at, diag;
static int stepf(void)
{
	VP_ASSERT(failed_at == 0, "C13: no further step runs after a failed one");
	step++;
	if (ND_BOOL()) { failed_at = step; return 1; }
	return 0;
}
void sqfs_perror(const char *f, const char *a, int c) { (void)f; (void)a; (void)c; diag++; }
#define fprintf(...) ((void)(diag++))
#define fputs(s, f) ((void)(diag++))

#ifndef NENT
#define NENT 1
#endif
static sqfs_ostream_t OUT0, OUT1;
static sqfs_dir_iterator_t IT0, IT1;
static sqfs_istream_t FIN;
static xfrm_stream_t XF;
static sqfs_xattr_t XA;
static unsigned drops_out0, drops_out1, drops_it0, drops_it1, drops_in, drops_xf, delivered, skipped, lists_out, lists_freed;
static unsigned appended_term, flushed, headers, padded, cleaned;
static sqfs_ostream_t *cur_out;

static void d_out0(sqfs_object_t *o) { (void)o; drops_out0++; }
static void d_out1(sqfs_object_t *o) { (void)o; drops_out1++; }
static void d_it0(sqfs_object_t *o) { (void)o; drops_it0++; }
static void d_it1(sqfs_object_t *o) { (void)o; drops_it1++; }
static void d_in(sqfs_object_t *o) { (void)o; drops_in++; }
static void d_xf(sqfs_object_t *o) { (void)o; drops_xf++; }

static int out_append(sqfs_ostream_t *s, const void *d, size_t n)
{
	VP_ASSERT(s == cur_out, "archive data goes to the current output stream");
	if (stepf()) return SQFS_ERROR_IO;
	if (n == 1024 && ((const char *)d)[0] == 0 && ((const char *)d)[1023] == 0) appended_term++;
	return 0;
}
static int out_flush(sqfs_ostream_t *s) { VP_ASSERT(s == cur_out, "flush the current output stream"); if (stepf()) return SQFS_ERROR_IO; flushed++; return 0; }
static const char *out_name(sqfs_ostream_t *s) { (void)s; return "stdout"; }
void process_args(int argc, char **argv) { (void)argc; (void)argv; }
int ostream_open_stdout(sqfs_ostream_t **out)
{
	if (stepf()) return SQFS_ERROR_ALLOC;
	OUT0.base.refcount = 1; OUT0.base.destroy = d_out0; OUT0.append = out_append; OUT0.flush = out_flush; OUT0.get_filename = out_name;
	*out = cur_out = &OUT0; return 0;
}
xfrm_stream_t *compressor_stream_create(int id, const compressor_config_t *c)
{
	(void)id; (void)c;
	if (stepf()) { diag++; return NULL; }	/* the codec constructors print their own message */
	XF.base.refcount = 1; XF.base.destroy = d_xf; return &XF;
}
sqfs_ostream_t *ostream_xfrm_create(sqfs_ostream_t *strm, xfrm_stream_t *x)
{
	VP_ASSERT(strm == &OUT0 && x == &XF, "compressor stream wraps stdout");
	if (stepf()) { diag++; return NULL; }	/* prints "error initializing compressor" itself */
	/* the real wrapper takes its own references */
	OUT0.base.refcount++; XF.base.refcount++;
	OUT1.base.refcount = 1; OUT1.base.destroy = d_out1; OUT1.append = out_append; OUT1.flush = out_flush; OUT1.get_filename = out_name;
	cur_out = &OUT1;
	return &OUT1;
}
static int it_next(sqfs_dir_iterator_t *it, sqfs_dir_entry_t **out)
{
	sqfs_dir_entry_t *e; unsigned kind;
	VP_ASSERT(it == (no_links ? &IT0 : &IT1), "entries come from the (filtered) iterator");
	if (delivered >= NENT) return 1;
	if (stepf()) return SQFS_ERROR_IO;
	e = calloc(1, sizeof(*e) + 2);
	VP_ASSUME(e != NULL);
	kind = ND_U32(); VP_ASSUME(kind < 4);
	e->mode = (kind == 0 ? S_IFREG : kind == 1 ? S_IFDIR : kind == 2 ? S_IFLNK : S_IFSOCK) | 0644;
	e->name[0] = 'a'; e->size = ND_U64();
	if (kind == 0 && ND_BOOL()) e->flags = SQFS_DIR_ENTRY_FLAG_HARD_LINK;
	delivered++; *out = e; return 0;
}
static int it_read_link(sqfs_dir_iterator_t *it, char **out)
{
	char *l; (void)it;
	if (stepf()) return SQFS_ERROR_IO;
	l = malloc(2); VP_ASSUME(l != NULL); l[0] = 't'; l[1] = 0; *out = l; return 0;
}
static int it_read_xattr(sqfs_dir_iterator_t *it, sqfs_xattr_t **out)
{
	(void)it;
	if (stepf()) return SQFS_ERROR_IO;
	*out = ND_BOOL() ? &XA : NULL; lists_out++; return 0;
}
static int it_open_file_ro(sqfs_dir_iterator_t *it, sqfs_istream_t **out)
{
	(void)it;
	if (stepf()) return SQFS_ERROR_IO;
	FIN.base.refcount = 1; FIN.base.destroy = d_in; *out = &FIN; return 0;
}
static void it_init(sqfs_dir_iterator_t *it, void (*d)(sqfs_object_t *))
{
	it->obj.refcount = 1; it->obj.destroy = d; it->next = it_next; it->read_link = it_read_link; it->read_xattr = it_read_xattr; it->open_file_ro = it_open_file_ro;
}
sqfs_dir_iterator_t *tar_compat_iterator_create(const char *fn) { (void)fn; if (stepf()) { diag++; return NULL; } it_init(&IT0, d_it0); return &IT0; }
int sqfs_hard_link_filter_create(sqfs_dir_iterator_t **out, sqfs_dir_iterator_t *base)
{
	VP_ASSERT(base == &IT0, "filter wraps the image iterator");
	if (stepf()) return SQFS_ERROR_ALLOC;
	IT0.obj.refcount++;	/* the filter keeps its own reference */
	it_init(&IT1, d_it1); *out = &IT1; return 0;
}
void sqfs_xattr_list_free(sqfs_xattr_t *l) { (void)l; lists_freed++; }
void sqfs_free(void *p) { free(p); }
static int last_unsupported;
int write_tar_header(sqfs_ostream_t *fp, const sqfs_dir_entry_t *ent, const char *target, const sqfs_xattr_t *x, unsigned int counter)
{
	(void)x; (void)counter;
	VP_ASSERT(fp == cur_out, "headers go to the current output stream");
	VP_ASSERT(!(S_ISLNK(ent->mode) || (ent->flags & SQFS_DIR_ENTRY_FLAG_HARD_LINK)) || (target != NULL && target[0] == 't'), "link target travels with the entry");
	if (S_ISSOCK(ent->mode)) { last_unsupported = 1; skipped++; if (dont_skip) { VP_ASSERT(failed_at == 0, "order"); step++; failed_at = step; } return SQFS_ERROR_UNSUPPORTED; }
	if (stepf()) return SQFS_ERROR_IO;
	headers++; return 0;
}
static unsigned splices;
sqfs_s32 sqfs_istream_splice(sqfs_istream_t *in, sqfs_ostream_t *out, sqfs_u32 size)
{
	(void)size;
	VP_ASSERT(in == &FIN && out == cur_out, "file data is spliced into the current output stream");
	if (stepf()) return SQFS_ERROR_IO;
	splices++;
	return (splices < 3 && ND_BOOL()) ? 1 : 0;
}
int padd_file(sqfs_ostream_t *fp, sqfs_u64 size) { (void)size; VP_ASSERT(fp == cur_out, "padding"); if (stepf()) { diag++; return -1; } padded++; return 0; }
void strlist_cleanup(strlist_t *l) { (void)l; cleaned++; }

#define main sqfs2tar_main
#include "bin/sqfs2tar/src/sqfs2tar.c"
#undef main

void harness(void)
{
	int rc;
	compressor = ND_BOOL() ? 1 : 0;
	no_links = ND_BOOL();
	dont_skip = ND_BOOL();

	rc = sqfs2tar_main(0, NULL);

	VP_ASSERT((rc == EXIT_SUCCESS) == (failed_at == 0), "C13: exit status 0 iff every step of the run succeeded");
	VP_ASSERT(rc == EXIT_SUCCESS || rc == EXIT_FAILURE, "exit status");
	VP_ASSERT(rc == EXIT_SUCCESS || diag >= 1, "C13: a failing run prints a diagnostic");
	VP_ASSERT(lists_freed == lists_out, "every xattr list is released exactly once");
	VP_ASSERT(drops_in == (FIN.base.refcount ? 1 : 0) || NENT > 1, "file stream released exactly once");
	VP_ASSERT(cleaned == 1, "option lists released");
	/* main's own references: every object it obtained is given up exactly once */
	if (OUT1.base.refcount) {
		VP_ASSERT(drops_out1 == 1 && drops_out0 == 0 && OUT0.base.refcount == 1 && drops_xf == 0 && XF.base.refcount == 1, "main drops its references to stdout and the codec once; the wrapper keeps its own");
	} else if (OUT0.base.refcount) {
		VP_ASSERT(drops_out0 == 1, "stdout stream released exactly once");
		VP_ASSERT(!XF.base.refcount || drops_xf == 1, "codec released exactly once when wrapping failed");
	}
	if (IT1.obj.refcount) {
		VP_ASSERT(drops_it1 == 1 && drops_it0 == 0 && IT0.obj.refcount == 1, "main drops the filter once and its own reference to the image iterator once");
	} else if (IT0.obj.refcount) {
		VP_ASSERT(drops_it0 == 1, "image iterator released exactly once");
	}
	if (rc == EXIT_SUCCESS) {
		VP_ASSERT(delivered == NENT && appended_term == 1 && flushed == 1, "C13: success only after every entry was written, the archive terminated and the stream flushed");
		VP_ASSERT(skipped == 0 || !dont_skip, "C13: with --no-skip an unsupported entry is fatal");
		VP_REACH("success");
	} else {
		VP_REACH("failure");
	}
}
