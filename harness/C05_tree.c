/*
 * C05 O-7: reading the directory hierarchy of a hostile image terminates:
 * a directory that (directly or through any chain) contains itself is
 * reported as a link loop instead of being followed forever.
 * real code: lib/common/src/read_tree.c (#included: fill_dir,
 *            would_be_own_parent, create_node), lib/util/src/alloc.c
 * env: directory reader stub serving a SYMBOLIC graph of NI inodes: every
 *      inode has a symbolic type (directory, extended directory, file), a
 *      symbolic inode number and - if it is a directory - one entry that
 *      designates an arbitrary inode of the graph (itself, an ancestor, ...)
 *      or no entry at all.
 * Termination = recursion/loop unwinding assertions with a bound derived
 * from NI (a path without repeated inode number is at most NI long).
 */
#include "vp.h"
#include <string.h>
#include <stdlib.h>
#ifndef NI
#define NI 3
#endif
#include "common.h"
/* tree nodes, inodes and directory entries come from typed static pools
   (allocation success; heap objects of several candidate sizes made the query
   intractable); free() is a no-op, leaks are not the subject here */
static struct { sqfs_tree_node_t n; char name[2]; } NODEPOOL[NI + 3];
static unsigned nodes_used;
static void *vp_node_alloc(void) { VP_ASSERT(nodes_used < NI + 3, "node pool"); memset(&NODEPOOL[nodes_used], 0, sizeof(NODEPOOL[0])); return &NODEPOOL[nodes_used++].n; }
static void vp_free(void *p) { (void)p; }
#define alloc_flex(a, b, c) vp_node_alloc()
#define free(p) vp_free(p)
#include "lib/common/src/read_tree.c"
#undef alloc_flex
#undef free
static sqfs_inode_generic_t INOPOOL[NI + 3];
static unsigned inos_used;
static struct { sqfs_dir_node_t e; sqfs_u8 name[2]; } ENTPOOL[NI + 3];
static unsigned ents_used;

static sqfs_u16 itype[NI];
static sqfs_u32 inum[NI];
static int child[NI];		/* index of the only entry's inode, -1: empty directory */

/* state->dir_ref: index of the directory being listed; cursor.entries: entries left (0/1) */
int sqfs_dir_reader_open_dir(sqfs_dir_reader_t *rd, const sqfs_inode_generic_t *inode, sqfs_dir_reader_state_t *state, sqfs_u32 flags)
{
	(void)rd; (void)flags;
	memset(state, 0, sizeof(*state));
	state->dir_ref = inode->base.uid_idx;	/* the stub keeps the graph index in uid_idx */
	VP_ASSERT(state->dir_ref < NI, "graph index");
	state->cursor.entries = child[state->dir_ref] >= 0 ? 1 : 0;
	return 0;
}
int sqfs_dir_reader_read(sqfs_dir_reader_t *rd, sqfs_dir_reader_state_t *state, sqfs_dir_node_t **out)
{
	sqfs_dir_node_t *e;
	(void)rd;
	if (state->cursor.entries == 0)
		return 1;
	state->cursor.entries = 0;
	VP_ASSERT(ents_used < NI + 3, "entry pool");
	e = &ENTPOOL[ents_used++].e;
	memset(e, 0, sizeof(ENTPOOL[0]));
	e->name[0] = 'x';
	e->size = 0;
	e->type = itype[child[state->dir_ref]];
	state->ent_ref = (sqfs_u64)child[state->dir_ref];
	*out = e;
	return 0;
}
int sqfs_dir_reader_get_inode(sqfs_dir_reader_t *rd, sqfs_u64 ref, sqfs_inode_generic_t **inode)
{
	sqfs_inode_generic_t *i;
	(void)rd;
	VP_ASSERT(inos_used < NI + 3, "inode pool");
	i = &INOPOOL[inos_used++];
	memset(i, 0, sizeof(*i));
	VP_ASSERT(ref < NI, "graph index");
	i->base.type = itype[ref];
	i->base.inode_number = inum[ref];
	i->base.uid_idx = (sqfs_u16)ref;
	*inode = i;
	return 0;
}
int sqfs_dir_reader_get_root_inode(sqfs_dir_reader_t *rd, sqfs_inode_generic_t **inode) { return sqfs_dir_reader_get_inode(rd, 0, inode); }
void sqfs_dir_tree_destroy(sqfs_tree_node_t *root) { (void)root; }
int sqfs_id_table_index_to_id(const sqfs_id_table_t *t, sqfs_u16 i, sqfs_u32 *o) { (void)t; (void)i; *o = 0; return 0; }

void harness(void)
{
	sqfs_dir_reader_state_t st;
	sqfs_inode_generic_t *rino = NULL;
	sqfs_tree_node_t *root;
	int ret;

	for (int i = 0; i < NI; ++i) {
		unsigned t = ND_U32();
		VP_ASSUME(t < 3);
		itype[i] = t == 0 ? SQFS_INODE_DIR : (t == 1 ? SQFS_INODE_EXT_DIR : SQFS_INODE_FILE);
		inum[i] = ND_U32();
		for (int j = 0; j < i; ++j)
			VP_ASSUME(inum[j] != inum[i]);	/* distinct inodes carry distinct numbers */
		child[i] = ND_I32();
		VP_ASSUME(child[i] >= -1 && child[i] < NI);
		if (t == 2) child[i] = -1;
	}
	VP_ASSUME(itype[0] != SQFS_INODE_FILE);
	sqfs_dir_reader_get_inode(NULL, 0, &rino);
	root = create_node(rino, "");
	VP_ASSUME(root != NULL);
	sqfs_dir_reader_open_dir(NULL, rino, &st, 0);
	ret = fill_dir(NULL, root, &st, 0);
	if (ret == SQFS_ERROR_LINK_LOOP)
		VP_REACH("loop_reported");
	else if (ret == 0)
		VP_REACH("tree_read");
}
