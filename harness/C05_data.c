/*
 * C05 O-5 (+ C10 O-2): the real data reader on an ARBITRARY image and an
 * ARBITRARY regular-file inode (every field and every block-size word
 * symbolic: a superset of what any damaged image can contain).
 *
 * real code: lib/sqfs/src/data_reader.c (#included, so that the reader object
 *            can be laid out as a typed static object - CBMC encodes
 *            alloc_flex()ed objects as byte arrays, which is ~100x slower),
 *            lib/sqfs/src/inode.c, lib/util/src/alloc.c
 * env: memfile (unconstrained bytes, size <= VP_IMG); deterministic
 *      adversarial compressor stub; sqfs_frag_table_lookup() stub returning
 *      unconstrained but deterministic entries (the fragment table of a
 *      damaged image holds arbitrary values; frag_table.c itself is checked in
 *      C05 tables); block size BS.
 *
 * MODE 1 get_block   MODE 2 get_fragment   MODE 3 read   MODE 4 stream
 * MODE 5 (C10) history independence of read(): [op on inode X] ; read(Y)
 *        on a used reader == read(Y) on a fresh reader.
 * MODE 6 (C10/C01) API agreement on one inode: read() == concatenation of
 *        the stream chunks.
 */
#include "vp_sqfs_stubs.h"
#include "sqfs/frag_table.h"
#include <stdlib.h>

#ifndef MODE
#define MODE 1
#endif
#ifndef BS
#define BS 4
#endif
#ifndef NW
#define NW 1	/* number of block-size words in the inode */
#endif
#ifndef NFRAG
#define NFRAG 2	/* fragment table entries */
#endif
#ifndef RD
#define RD 6
#endif

#include "lib/sqfs/src/data_reader.c"

/* ---- fragment table stub ---- */
static sqfs_u64 vp_frag_start[NFRAG];
static sqfs_u32 vp_frag_size[NFRAG];
static sqfs_frag_table_t *vp_tbl_dummy = (sqfs_frag_table_t *)0;

int sqfs_frag_table_lookup(sqfs_frag_table_t *tbl, sqfs_u32 index, sqfs_fragment_t *out)
{
	(void)tbl;
	if (index >= NFRAG)
		return SQFS_ERROR_OUT_OF_BOUNDS;
	out->start_offset = vp_frag_start[index];
	out->size = vp_frag_size[index];
	out->pad0 = 0;
	return 0;
}
sqfs_frag_table_t *sqfs_frag_table_create(sqfs_u32 flags) { (void)flags; return NULL; }
int sqfs_frag_table_read(sqfs_frag_table_t *t, sqfs_file_t *f, const sqfs_super_t *s, sqfs_compressor_t *c)
{ (void)t; (void)f; (void)s; (void)c; return 0; }
size_t sqfs_frag_table_get_size(sqfs_frag_table_t *t) { (void)t; return NFRAG; }

/* ---- typed static objects ---- */
static struct { sqfs_data_reader_t rd; sqfs_u8 pad[BS]; } RDA, RDF;
static struct { sqfs_inode_generic_t ino; sqfs_u32 words[NW + 1]; } INX, INY;
static struct { data_reader_istream_t s; sqfs_u32 words[NW + 1]; char name[4]; } STW;

/* the state sqfs_data_reader_create_stream() establishes, laid out as a typed
   static object (create_stream itself is exercised in MODE 7) */
static sqfs_istream_t *mk_stream(sqfs_data_reader_t *rd, const sqfs_inode_generic_t *inode)
{
	data_reader_istream_t *st = &STW.s;
	sqfs_u64 filesz;
	size_t ino_sz = inode->payload_bytes_used;
	sqfs_inode_get_file_size(inode, &filesz);
	st->buffer = malloc(BS);
	VP_ASSUME(st->buffer != NULL);
	st->base.base.refcount = 1;
	st->base.base.destroy = dr_stream_destroy;
	st->base.base.copy = NULL;
	for (size_t i = 0; i < NW; ++i)
		st->inodata[i] = inode->extra[i];
	st->blocks = st->inodata;
	st->blk_count = ino_sz / sizeof(st->blocks[0]);
	st->blk_idx = 0;
	st->filesz = filesz;
	st->filename = "f";
	st->buf_used = 0;
	st->buf_off = 0;
	sqfs_inode_get_file_block_start(inode, &st->disk_offset);
	sqfs_inode_get_frag_location(inode, &st->frag_idx, &st->frag_off);
	st->rd = rd;
	st->base.advance_buffer = dr_stream_advance_buffer;
	st->base.get_filename = dr_stream_get_filename;
	st->base.get_buffered_data = dr_stream_get_buffered_data;
	return (sqfs_istream_t *)st;
}

static sqfs_data_reader_t *mk_reader(void *w, sqfs_file_t *f, sqfs_compressor_t *c)
{
	sqfs_data_reader_t *rd = w;
	/* state established by sqfs_data_reader_create() */
	rd->obj.refcount = 1;
	rd->obj.destroy = data_reader_destroy;
	rd->obj.copy = data_reader_copy;
	rd->frag_tbl = vp_tbl_dummy;
	rd->file = f;
	rd->cmp = c;
	rd->block_size = BS;
	rd->data_block = NULL;
	rd->frag_block = NULL;
	rd->data_blk_size = 0;
	rd->frag_blk_size = 0;
	rd->current_block = 0;
	rd->current_frag_index = 0;
	return rd;
}

static sqfs_inode_generic_t *mk_inode(void *w)
{
	sqfs_inode_generic_t *ino = w;
	if (ND_BOOL()) {
		ino->base.type = SQFS_INODE_FILE;
		ino->data.file.blocks_start = ND_U32();
		ino->data.file.fragment_index = ND_U32();
		ino->data.file.fragment_offset = ND_U32();
		ino->data.file.file_size = ND_U32();
	} else {
		ino->base.type = SQFS_INODE_EXT_FILE;
		ino->data.file_ext.blocks_start = ND_U64();
		ino->data.file_ext.file_size = ND_U64();
		/* engine limit: CBMC pointers carry 52 offset bits (--object-bits 12);
		   byte offsets >= 2^48 are outside the claim */
		VP_ASSUME(ino->data.file_ext.file_size < ((sqfs_u64)1 << 48));
		ino->data.file_ext.sparse = ND_U64();
		ino->data.file_ext.nlink = ND_U32();
		ino->data.file_ext.fragment_idx = ND_U32();
		ino->data.file_ext.fragment_offset = ND_U32();
		ino->data.file_ext.xattr_idx = ND_U32();
	}
	for (int i = 0; i < NW; ++i)
		ino->extra[i] = ND_U32();
	ino->payload_bytes_used = NW * sizeof(sqfs_u32);
	ino->payload_bytes_available = NW * sizeof(sqfs_u32);
	return ino;
}

void harness(void)
{
	sqfs_file_t *f = vp_file_init();
	sqfs_compressor_t *c = vp_cmp_init();
	sqfs_data_reader_t *rd;
	sqfs_inode_generic_t *ino;
	sqfs_u8 *out = NULL;
	size_t outsz = 0;
	int ret;

	vp_img_symbolic();
	for (int i = 0; i < NFRAG; ++i) {
		vp_frag_start[i] = ND_U64();
		vp_frag_size[i] = ND_U32();
	}
	rd = mk_reader(&RDA, f, c);
	ino = mk_inode(&INX);

#if MODE == 1
	{
		size_t idx = ND_SZ();
		ret = sqfs_data_reader_get_block(rd, ino, idx, &outsz, &out);
		if (ret == 0) {
			VP_ASSERT(out != NULL && outsz <= BS, "get_block: result fits the block size");
			VP_ASSERT(VP_R_OK(out, outsz), "get_block: returned buffer holds the reported number of bytes");
			VP_REACH("ok");
		} else {
			VP_ASSERT(out == NULL, "get_block: no buffer on error");
			VP_REACH("err");
		}
	}
#elif MODE == 2
	ret = sqfs_data_reader_get_fragment(rd, ino, &outsz, &out);
	if (ret == 0) {
		VP_ASSERT(outsz < BS, "get_fragment: a tail is smaller than a block");
		VP_ASSERT(out == NULL ? outsz == 0 : VP_R_OK(out, outsz), "get_fragment: buffer holds the reported bytes");
		if (outsz > 0) {
			sqfs_u32 fi, fo;
			sqfs_inode_get_frag_location(ino, &fi, &fo);
			VP_ASSERT((sqfs_u64)fo + outsz <= rd->frag_blk_size, "C05/C10: a tail end is only delivered when it lies inside the fragment block that was actually stored (the bound read() and the stream reader use), never out of the cache buffer's slack");
		}
		VP_REACH("ok");
	} else {
		VP_REACH("err");
	}
#elif MODE == 3
	{
		unsigned char buf[RD];
		sqfs_u64 off = ND_U64();
		sqfs_u32 n = ND_U32();
		VP_ASSUME(n <= RD);
		ret = sqfs_data_reader_read(rd, ino, off, buf, n);
		VP_ASSERT(ret <= (int)n, "read: never returns more than requested");
		if (ret > 0)
			VP_REACH("ok");
		else if (ret == 0)
			VP_REACH("eof");
		else
			VP_REACH("err");
	}
#elif MODE == 4
	{
		sqfs_istream_t *s = NULL;
		const sqfs_u8 *p;
		size_t avail;
		s = mk_stream(rd, ino);
		for (int k = 0; k < NW + 2; ++k) {
			ret = s->get_buffered_data(s, &p, &avail, BS);
			if (ret != 0)
				break;
			VP_ASSERT(avail >= 1 && avail <= BS, "stream: chunk is non-empty and at most one block");
			VP_ASSERT(VP_R_OK(p, avail), "stream: chunk is readable");
			s->advance_buffer(s, avail);
		}
		if (ret != 0) {
			/* a stream that reported an error or end-of-file stays that way */
			int r2 = s->get_buffered_data(s, &p, &avail, BS);
			VP_ASSERT(r2 != 0, "C05/C10: after an error or end-of-file the stream never hands out data again (no stale or uninitialised bytes)");
		}
		if (ret > 0)
			VP_REACH("eof");
		else if (ret < 0)
			VP_REACH("err");
		else
			VP_REACH("more");
	}
#elif MODE == 5
	{
		/* history: one arbitrary operation on inode X, then read(Y) */
		sqfs_inode_generic_t *iy = mk_inode(&INY);
		sqfs_data_reader_t *fr = mk_reader(&RDF, f, c);
		unsigned char b0[RD], ba[RD], bf[RD];
		sqfs_u64 off0 = ND_U64(), off = ND_U64();
		sqfs_u32 n0 = ND_U32(), n = ND_U32();
		int ra, rf, r0;
		VP_ASSUME(n0 <= RD && n <= RD);
		if (ND_BOOL())
			r0 = sqfs_data_reader_read(rd, ino, off0, b0, n0);
		else
			r0 = sqfs_data_reader_get_fragment(rd, ino, &outsz, &out);
#ifdef HIST3
		/* a second arbitrary operation: the SAME query that is repeated at the
		   end (covers "fails first, then hits a poisoned cache") or a fragment
		   lookup through the final inode */
		if (ND_BOOL())
			(void)sqfs_data_reader_read(rd, iy, off, ba, n);
		else
			(void)sqfs_data_reader_get_fragment(rd, iy, &outsz, &out);
#endif
		ra = sqfs_data_reader_read(rd, iy, off, ba, n);
		rf = sqfs_data_reader_read(fr, iy, off, bf, n);
		VP_ASSERT(ra == rf, "C10: result of read() does not depend on earlier operations on the reader");
		if (ra > 0) {
			for (int i = 0; i < RD; ++i)
				if (i < ra)
					VP_ASSERT(ba[i] == bf[i], "C10: bytes of read() do not depend on earlier operations");
			VP_REACH("both_ok");
			if (r0 < 0)
				VP_REACH("ok_after_failed_op");
		}
		(void)r0;
	}
#elif MODE == 6
	{
		/* positional read vs. stream over the same inode, whole file */
		unsigned char br[RD];
		sqfs_istream_t *s = NULL;
		sqfs_data_reader_t *fr = mk_reader(&RDF, f, c);
		const sqfs_u8 *p;
		size_t avail, pos = 0;
		sqfs_u64 fsz;
		int rr, rs = 0;
		sqfs_inode_get_file_size(ino, &fsz);
		VP_ASSUME(fsz <= RD);
		rr = sqfs_data_reader_read(rd, ino, 0, br, RD);
		s = mk_stream(fr, ino);
		for (int k = 0; k < NW + 2; ++k) {
			rs = s->get_buffered_data(s, &p, &avail, BS);
			if (rs != 0)
				break;
			for (size_t j = 0; j < BS; ++j) {
				if (j < avail && rr >= 0 && pos + j < (size_t)rr)
					VP_ASSERT(p[j] == br[pos + j], "stream and positional read deliver the same bytes");
			}
			pos += avail;
			s->advance_buffer(s, avail);
		}
		if (rr >= 0 && rs > 0) {
			VP_ASSERT(pos == (size_t)rr, "stream and positional read deliver the same number of bytes");
			VP_REACH("both_complete");
		}
	}
#elif MODE == 7
	{
		/* the real constructor: fields as mk_stream() lays them out */
		sqfs_istream_t *s = NULL;
		ret = sqfs_data_reader_create_stream(rd, ino, "f", &s);
		if (ret == 0) {
			data_reader_istream_t *st = (data_reader_istream_t *)s;
			sqfs_u64 fsz, st0;
			sqfs_u32 fi, fo;
			sqfs_inode_get_file_size(ino, &fsz);
			sqfs_inode_get_file_block_start(ino, &st0);
			sqfs_inode_get_frag_location(ino, &fi, &fo);
			VP_ASSERT(st->blk_count == NW && st->blk_idx == 0 && st->filesz == fsz && st->disk_offset == st0 &&
				  st->frag_idx == fi && st->frag_off == fo && st->rd == rd && st->buf_used == 0 && st->buf_off == 0 &&
				  st->buffer != NULL && st->blocks == st->inodata,
				  "create_stream establishes the state the stream harnesses start from");
			for (int i = 0; i < NW; ++i)
				VP_ASSERT(st->blocks[i] == ino->extra[i], "create_stream copies the block list");
			VP_ASSERT(s->get_buffered_data == dr_stream_get_buffered_data && s->advance_buffer == dr_stream_advance_buffer, "stream hooks");
			VP_REACH("created");
		}
	}
#endif
	/* teardown (sqfs_drop) is deliberately not part of this harness: the
	   destroy hook dispatch is covered by C19 */
	(void)ret; (void)outsz; (void)out;
}
