/*
 * C03 O-2: basic vs. extended directory inode - thresholds.
 * real code: lib/sqfs/src/dir_writer.c (#included: sqfs_dir_writer_create_inode)
 * The writer state (listing size, entry count, position, no index) is
 * symbolic: the stored size field must equal listing size + 3 WITHOUT
 * wrapping, and the basic form is only chosen when every field fits.
 */
#include "vp.h"
#include <string.h>
#include "sqfs/meta_writer.h"
struct sqfs_meta_writer_t { sqfs_object_t base; int d; };
int sqfs_meta_writer_append(sqfs_meta_writer_t *m, const void *d, size_t s) { (void)m; (void)d; (void)s; return 0; }
void sqfs_meta_writer_get_position(const sqfs_meta_writer_t *m, sqfs_u64 *b, sqfs_u32 *o) { (void)m; *b = 0; *o = 0; }
#include "lib/sqfs/src/dir_writer.c"
static sqfs_dir_writer_t DW;

void harness(void)
{
	sqfs_inode_generic_t *ino;
	sqfs_u32 xattr = ND_BOOL() ? 0xFFFFFFFFu : ND_U32(), parent = ND_U32();
	size_t hl = ND_SZ();

	DW.dir_size = ND_SZ();
	DW.ent_count = ND_SZ();
	DW.dir_ref = ND_U64();
	VP_ASSUME(DW.dir_size < 0xFFFFFFF0u && DW.ent_count < 0x100000 && hl < 0x1000);
	VP_ASSUME((DW.dir_ref >> 16) <= 0xFFFFFFFFu);
	ino = sqfs_dir_writer_create_inode(&DW, hl, xattr, parent);
	VP_ASSUME(ino != NULL);
	if (ino->base.type == SQFS_INODE_DIR) {
		VP_ASSERT((sqfs_u64)ino->data.dir.size == (sqfs_u64)DW.dir_size + 3,
			  "C03/C01: the 16 bit size field of a basic directory inode holds listing size + 3 without wrapping");
		VP_ASSERT(xattr == 0xFFFFFFFFu && DW.ent_count < 256, "basic directory inode only without xattr and with < 256 entries");
		VP_ASSERT(ino->data.dir.nlink == DW.ent_count + hl + 2 && ino->data.dir.parent_inode == parent &&
			  ino->data.dir.start_block == (sqfs_u32)(DW.dir_ref >> 16) && ino->data.dir.offset == (DW.dir_ref & 0xFFFF), "basic directory inode fields");
		VP_REACH("basic");
	} else {
		VP_ASSERT(ino->base.type == SQFS_INODE_EXT_DIR, "type");
		VP_ASSERT((sqfs_u64)ino->data.dir_ext.size == (sqfs_u64)DW.dir_size + 3, "extended directory inode size field holds listing size + 3");
		VP_ASSERT(ino->data.dir_ext.xattr_idx == xattr && ino->data.dir_ext.nlink == DW.ent_count + hl + 2 && ino->data.dir_ext.parent_inode == parent, "extended directory inode fields");
		VP_REACH("extended");
	}
}
