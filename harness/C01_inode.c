/*
 * C01 O-1/O-2: inodes.
 * MODE 1 (inode.c): sqfs_inode_make_extended() keeps every value and yields
 *        "no xattr" for EVERY basic type; make_basic() only when
 *        representable and then lossless.
 * MODE 2 (write_inode.c -> byte stream -> read_inode.c): the inode read back
 *        equals the inode written, field by field, for inode type ITYPE with
 *        NW block words / TL target bytes; the two layers are connected by a
 *        byte FIFO standing in for the metadata stream (C03/C05 cover the
 *        real metadata writer/reader).
 * real code: lib/sqfs/src/inode.c, write_inode.c, read_inode.c, alloc.c
 */
#include "vp.h"
#include "sqfs/inode.h"
#include "sqfs/meta_writer.h"
#include "sqfs/meta_reader.h"
#include "sqfs/super.h"
#include "sqfs/error.h"
#include <string.h>
#include <stdlib.h>
#include <sys/stat.h>
#ifndef MODE
#define MODE 1
#endif
#ifndef ITYPE
#define ITYPE 2
#endif
#ifndef NW
#define NW 1
#endif
#ifndef TL
#define TL 2
#endif
#define PAY (NW * 4 > TL + 1 ? NW * 4 : TL + 1)

static struct { sqfs_inode_generic_t i; unsigned char pay[PAY + 4]; } IN;

#if MODE == 2
#define FCAP 96
static unsigned char fifo[FCAP];
static size_t fifo_w, fifo_r;
struct sqfs_meta_writer_t { sqfs_object_t b; int d; };
struct sqfs_meta_reader_t { sqfs_object_t b; int d; };
static struct sqfs_meta_writer_t MW;
static struct sqfs_meta_reader_t MR;
int sqfs_meta_writer_append(sqfs_meta_writer_t *m, const void *d, size_t n)
{
	(void)m;
	VP_ASSERT(fifo_w + n <= FCAP, "fifo capacity");
	for (size_t i = 0; i < 48; ++i)
		if (i < n) fifo[fifo_w + i] = ((const unsigned char *)d)[i];
	VP_ASSERT(n <= 48, "append size within the harness copy loop");
	fifo_w += n;
	return 0;
}
int sqfs_meta_reader_seek(sqfs_meta_reader_t *m, sqfs_u64 b, size_t o) { (void)m; (void)b; (void)o; return 0; }
int sqfs_meta_reader_read(sqfs_meta_reader_t *m, void *d, size_t n)
{
	(void)m;
	if (fifo_r + n > fifo_w)
		return SQFS_ERROR_OUT_OF_BOUNDS;
	for (size_t i = 0; i < 48; ++i)
		if (i < n) ((unsigned char *)d)[i] = fifo[fifo_r + i];
	VP_ASSERT(n <= 48, "read size within the harness copy loop");
#ifdef ITYPE
	if (fifo_r == 0 && n == sizeof(sqfs_inode_t)) {
		/* the type word the reader dispatches on: PROVED to be the written type,
		   then stored as a typed constant so that symbolic execution does not
		   walk into the readers of all other inode types (engine lesson 0A.6) */
		VP_ASSERT(fifo[0] == (ITYPE & 0xFF) && fifo[1] == (ITYPE >> 8), "C01: the inode type word is written first, little endian");
		((sqfs_inode_t *)d)->type = ITYPE;
	}
#endif
	fifo_r += n;
	return 0;
}
#endif

static void fill_common(sqfs_inode_generic_t *n, unsigned type)
{
	n->base.type = type;
	n->base.mode = ND_U16();
	n->base.uid_idx = ND_U16();
	n->base.gid_idx = ND_U16();
	n->base.mod_time = ND_U32();
	n->base.inode_number = ND_U32();
}

void harness(void)
{
	sqfs_inode_generic_t *n = &IN.i;
#if MODE == 1
	unsigned t = ND_U32();
	sqfs_u32 x = 0, nl0;
	sqfs_u64 a, b;
	int ret;
	VP_ASSUME(t >= SQFS_INODE_DIR && t <= SQFS_INODE_SOCKET);
	/* a freshly built basic inode: the rest of the union is zero (calloc) */
	fill_common(n, t);
	switch (t) {
	case SQFS_INODE_DIR:
		n->data.dir.start_block = ND_U32(); n->data.dir.nlink = ND_U32(); n->data.dir.size = ND_U16();
		n->data.dir.offset = ND_U16(); n->data.dir.parent_inode = ND_U32();
		break;
	case SQFS_INODE_FILE:
		n->data.file.blocks_start = ND_U32(); n->data.file.fragment_index = ND_U32();
		n->data.file.fragment_offset = ND_U32(); n->data.file.file_size = ND_U32();
		break;
	case SQFS_INODE_SLINK:
		n->data.slink.nlink = ND_U32(); n->data.slink.target_size = ND_U32();
		break;
	case SQFS_INODE_BDEV: case SQFS_INODE_CDEV:
		n->data.dev.nlink = ND_U32(); n->data.dev.devno = ND_U32();
		break;
	default:
		n->data.ipc.nlink = ND_U32();
		break;
	}
	nl0 = (t == SQFS_INODE_DIR) ? n->data.dir.nlink : (t == SQFS_INODE_FILE ? 1 : n->data.slink.nlink);
	a = (t == SQFS_INODE_FILE) ? n->data.file.file_size : 0;
	b = (t == SQFS_INODE_FILE) ? n->data.file.blocks_start : 0;
	ret = sqfs_inode_make_extended(n);
	VP_ASSERT(ret == 0 && n->base.type == t + 7, "every basic type has an extended twin");
	ret = sqfs_inode_get_xattr_index(n, &x);
	VP_ASSERT(ret == 0 && x == 0xFFFFFFFF, "C01: an inode that was merely widened to its extended type has NO xattr (index 0xFFFFFFFF), for every type");
	switch (n->base.type) {
	case SQFS_INODE_EXT_DIR:  VP_ASSERT(n->data.dir_ext.nlink == nl0, "nlink kept"); break;
	case SQFS_INODE_EXT_FILE: { sqfs_u64 s, bs; sqfs_inode_get_file_size(n, &s); sqfs_inode_get_file_block_start(n, &bs);
		VP_ASSERT(s == a && bs == b && n->data.file_ext.nlink == 1 && n->data.file_ext.sparse == 0, "file values kept"); break; }
	case SQFS_INODE_EXT_SLINK: VP_ASSERT(n->data.slink_ext.nlink == nl0, "nlink kept"); break;
	case SQFS_INODE_EXT_BDEV: case SQFS_INODE_EXT_CDEV: VP_ASSERT(n->data.dev_ext.nlink == nl0, "nlink kept"); break;
	default: VP_ASSERT(n->data.ipc_ext.nlink == nl0, "nlink kept"); break;
	}
	/* attaching and detaching an xattr set touches nothing else */
	{
		sqfs_u32 want = ND_U32(), got = 0;
		sqfs_u32 dev0 = (n->base.type == SQFS_INODE_EXT_BDEV || n->base.type == SQFS_INODE_EXT_CDEV) ? n->data.dev_ext.devno : 0;
		ret = sqfs_inode_set_xattr_index(n, want);
		VP_ASSERT(ret == 0 && sqfs_inode_get_xattr_index(n, &got) == 0 && got == want, "C01: the xattr index that was set is the one that is read back, for every inode type");
		if (n->base.type == SQFS_INODE_EXT_BDEV || n->base.type == SQFS_INODE_EXT_CDEV)
			VP_ASSERT(n->data.dev_ext.devno == dev0 && n->data.dev_ext.nlink == nl0, "C01: setting an xattr index leaves the device number alone");
		if (n->base.type == SQFS_INODE_EXT_FIFO || n->base.type == SQFS_INODE_EXT_SOCKET)
			VP_ASSERT(n->data.ipc_ext.nlink == nl0, "link count untouched");
		ret = sqfs_inode_set_xattr_index(n, 0xFFFFFFFF);
		VP_ASSERT(ret == 0, "detach");
	}
	/* and back */
	ret = sqfs_inode_make_basic(n);
	VP_ASSERT(ret == 0 && n->base.type == t, "an extended inode without xattr, sparse bytes, extra links or wide values becomes basic again");
	VP_REACH("done");
#else
	sqfs_inode_generic_t *r = NULL;
	sqfs_super_t super;
	int ret;
	memset(&super, 0, sizeof(super));
	super.block_size = 4096;
	fill_common(n, ITYPE);
	for (size_t i = 0; i < PAY; ++i) IN.pay[i] = ND_U8();
	switch (ITYPE) {
	case SQFS_INODE_DIR:
		n->data.dir.start_block = ND_U32(); n->data.dir.nlink = ND_U32(); n->data.dir.size = ND_U16();
		n->data.dir.offset = ND_U16(); n->data.dir.parent_inode = ND_U32(); break;
	case SQFS_INODE_FILE:
		n->data.file.blocks_start = ND_U32(); n->data.file.fragment_index = ND_U32();
		n->data.file.fragment_offset = ND_U32();
		/* NW block words <=> file size class (frag present or not) */
		n->data.file.file_size = ND_U32();
		n->payload_bytes_used = NW * 4; n->payload_bytes_available = NW * 4; break;
	case SQFS_INODE_EXT_FILE:
		n->data.file_ext.blocks_start = ND_U64(); n->data.file_ext.file_size = ND_U64(); n->data.file_ext.sparse = ND_U64();
		VP_ASSUME(n->data.file_ext.file_size <= 0xFFFFFF);	/* 64 bit division by the block size: bounded so that SAT finishes */
		n->data.file_ext.nlink = ND_U32(); n->data.file_ext.fragment_idx = ND_U32(); n->data.file_ext.fragment_offset = ND_U32();
		n->data.file_ext.xattr_idx = ND_U32();
		n->payload_bytes_used = NW * 4; n->payload_bytes_available = NW * 4; break;
	case SQFS_INODE_SLINK: case SQFS_INODE_EXT_SLINK:
		n->data.slink.nlink = ND_U32(); n->data.slink.target_size = TL;
		if (ITYPE == SQFS_INODE_EXT_SLINK) n->data.slink_ext.xattr_idx = ND_U32();
		n->payload_bytes_used = TL; n->payload_bytes_available = TL + 1; break;
	case SQFS_INODE_BDEV: case SQFS_INODE_CDEV:
		n->data.dev.nlink = ND_U32(); n->data.dev.devno = ND_U32(); break;
	case SQFS_INODE_EXT_BDEV: case SQFS_INODE_EXT_CDEV:
		n->data.dev_ext.nlink = ND_U32(); n->data.dev_ext.devno = ND_U32(); n->data.dev_ext.xattr_idx = ND_U32(); break;
	case SQFS_INODE_FIFO: case SQFS_INODE_SOCKET:
		n->data.ipc.nlink = ND_U32(); break;
	default:
		n->data.ipc_ext.nlink = ND_U32(); n->data.ipc_ext.xattr_idx = ND_U32(); break;
	}
	if (ITYPE == SQFS_INODE_FILE || ITYPE == SQFS_INODE_EXT_FILE) {
		/* what the block processor guarantees: the word count matches size/fragment */
		sqfs_u64 fsz; sqfs_u32 fi, fo; sqfs_u64 cnt;
		sqfs_inode_get_file_size(n, &fsz); sqfs_inode_get_frag_location(n, &fi, &fo);
		cnt = fsz / 4096 + ((fsz % 4096) != 0 && (fi == 0xFFFFFFFF || fo == 0xFFFFFFFF) ? 1 : 0);
		VP_ASSUME(cnt == NW);
	}
	ret = sqfs_meta_writer_write_inode(&MW, n);
	VP_ASSERT(ret == 0, "writer accepts the inode");
	ret = sqfs_meta_reader_read_inode(&MR, &super, 0, 0, &r);
	VP_ASSERT(ret == 0 && r != NULL, "C01: an inode that was written can be read back");
	if (ret != 0 || r == NULL) return;
	VP_ASSERT(fifo_r == fifo_w, "reader consumes exactly what the writer produced");
	VP_ASSERT(r->base.type == n->base.type && r->base.uid_idx == n->base.uid_idx && r->base.gid_idx == n->base.gid_idx &&
		  r->base.mod_time == n->base.mod_time && r->base.inode_number == n->base.inode_number &&
		  (r->base.mode & 07777) == (n->base.mode & 07777), "C01: common inode fields survive the round trip");
	VP_ASSERT(memcmp(&r->data, &n->data, ITYPE == SQFS_INODE_DIR ? sizeof(n->data.dir) : ITYPE == SQFS_INODE_FILE ? sizeof(n->data.file) :
		  ITYPE == SQFS_INODE_EXT_FILE ? sizeof(n->data.file_ext) : ITYPE == SQFS_INODE_SLINK ? sizeof(n->data.slink) :
		  ITYPE == SQFS_INODE_EXT_SLINK ? sizeof(n->data.slink_ext) : (ITYPE == SQFS_INODE_BDEV || ITYPE == SQFS_INODE_CDEV) ? sizeof(n->data.dev) :
		  (ITYPE == SQFS_INODE_EXT_BDEV || ITYPE == SQFS_INODE_EXT_CDEV) ? sizeof(n->data.dev_ext) :
		  (ITYPE == SQFS_INODE_FIFO || ITYPE == SQFS_INODE_SOCKET) ? sizeof(n->data.ipc) : sizeof(n->data.ipc_ext)) == 0,
		  "C01: type specific inode fields survive the round trip");
	VP_ASSERT(r->payload_bytes_used == n->payload_bytes_used, "payload length survives");
	for (size_t i = 0; i < PAY; ++i)
		if (i < n->payload_bytes_used)
			VP_ASSERT(((unsigned char *)r->extra)[i] == IN.pay[i], "C01: block list / symlink target bytes survive the round trip");
	VP_REACH("done");
#endif
}
