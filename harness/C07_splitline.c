/*
 * C07 O-5: the line tokeniser on arbitrary text.
 * real code: lib/util/src/split_line.c (#included; token vector modelled as
 *            one static object - allocation success)
 * Post: memory safe on every byte string; on success every token pointer
 * lies inside the line buffer, tokens are NUL terminated inside the buffer,
 * appear in increasing order and (in-place rewriting) never extend beyond the
 * original text.
 */
#include "vp.h"
#include <string.h>
#include <stdlib.h>
#include "util/parse.h"
#ifndef N
#define N 6
#endif
static struct { split_line_t s; char *args[N + 2]; } SPL;
static void *vp_spl_calloc(size_t n, size_t sz) { (void)n; (void)sz; memset(&SPL, 0, sizeof(SPL)); return &SPL.s; }
static void *vp_spl_realloc(void *p, size_t sz) { VP_ASSERT(sz <= sizeof(SPL), "token vector within the modelled capacity"); return p; }
static void vp_spl_free(void *p) { (void)p; }
#define calloc vp_spl_calloc
#define realloc vp_spl_realloc
#define free vp_spl_free
#include "lib/util/src/split_line.c"
#undef calloc
#undef realloc
#undef free

void harness(void)
{
	char line[N + 2];
	split_line_t *sp = NULL;
	size_t len = ND_SZ(), i;
	int ret;

	for (i = 0; i < N; ++i)
		line[i] = (char)ND_U8();
	line[N] = 0;
	line[N + 1] = 0x5A;
	VP_ASSUME(len <= N);
	ret = split_line(line, len, " \t", &sp);
	VP_ASSERT(ret == SPLIT_LINE_OK || ret == SPLIT_LINE_UNMATCHED_QUOTE || ret == SPLIT_LINE_ESCAPE, "result is one of the documented codes");
	VP_ASSERT((unsigned char)line[N + 1] == 0x5A, "nothing is written behind the line buffer");
	if (ret == SPLIT_LINE_OK) {
		VP_ASSERT(sp != NULL && sp->count <= N, "token count bounded by the text length");
		for (i = 0; i < N; ++i) {
			if (i < sp->count) {
				char *t = sp->args[i];
				VP_ASSERT(t >= line && t <= line + N, "token pointer lies inside the line buffer");
				if (i + 1 < sp->count)
					VP_ASSERT(sp->args[i + 1] > t, "tokens appear in order");
			}
		}
		VP_REACH("ok");
	} else {
		VP_REACH("rejected");
	}
}
