/*
 * C14 O-1: the provisional superblock written at start-up is rejected by the
 * readers, for every legal block size / timestamp / compressor id, with and
 * without a compressor-options block following it.
 * real code: lib/sqfs/src/super.c, write_super.c, read_super.c,
 *            id_table.c (sqfs_id_table_read entry check)
 */
#define VP_IMG 104
#define VP_MAXIO 96
#include "vp_sqfs_stubs.h"
#include "sqfs/super.h"
#include "sqfs/id_table.h"

void harness(void)
{
	sqfs_file_t *f = vp_file_init();
	sqfs_super_t s, r;
	unsigned log = ND_U32();
	sqfs_u32 mtime = ND_U32();
	unsigned comp = ND_U32();
	int ret;

	VP_ASSUME(log >= 12 && log <= 20);
	VP_ASSUME(comp >= SQFS_COMP_MIN && comp <= SQFS_COMP_MAX);
	ret = sqfs_super_init(&s, (size_t)1 << log, mtime, comp);
	VP_ASSERT(ret == 0, "legal parameters are accepted");
	VP_ASSERT(s.bytes_used == sizeof(s) && s.id_count == 0 && s.inode_count == 0, "provisional superblock announces nothing");
	VP_ASSERT(s.id_table_start == ~0ULL && s.inode_table_start == ~0ULL && s.directory_table_start == ~0ULL &&
		  s.fragment_table_start == ~0ULL && s.export_table_start == ~0ULL && s.xattr_id_table_start == ~0ULL,
		  "every table pointer of the provisional superblock is the 'absent' marker");
	if (ND_BOOL())
		s.flags |= SQFS_FLAG_COMPRESSOR_OPTIONS;	/* init.c sets it when options were written */

	vp_img_size = 0;
	ret = sqfs_super_write(&s, f);
	VP_ASSERT(ret == 0 && vp_img_size == sizeof(s) && vp_wlog_n == 1 && vp_wlog_off[0] == 0, "superblock occupies bytes [0,96)");
	/* whatever the packer appended before it was killed */
	vp_img_size = ND_U64();
	VP_ASSUME(vp_img_size >= sizeof(s) && vp_img_size <= VP_IMG);
	for (size_t i = sizeof(s); i < VP_IMG; ++i)
		vp_img[i] = ND_U8();

	ret = sqfs_super_read(&r, f);
	VP_ASSERT(ret != 0, "C14: a file that still carries the provisional superblock is rejected by sqfs_super_read");
	{
		sqfs_id_table_t *t = sqfs_id_table_create(0);
		VP_ASSUME(t != NULL);
		ret = sqfs_id_table_read(t, f, &s, NULL);
		VP_ASSERT(ret != 0, "C14: the id table of a provisional superblock cannot be loaded either");
	}
	VP_REACH("end");
}
