/*
 * C03 / C01 (memory safety of the packer): the xattr id table writer
 * write_id_table() + alloc_location_table() (lib/sqfs/src/xattr/
 * xattr_writer_flush.c, #included) for NB recorded xattr sets with the
 * metadata block size scaled to VP_META bytes (16 byte id entries, so
 * VP_META/16 entries per block).
 * env: metadata writer stub with the real position model: the offset wraps to
 *      0 and the block address advances as soon as a block is full.
 * Post: every store into the location array is inside the array that
 * alloc_location_table() sized (an id table that ends exactly on a block
 * boundary must not record the position of a block that never gets written);
 * slot j holds the address of block j of the id table.
 */
#include "vp.h"
#include <stdlib.h>
#include <string.h>
#include "lib/sqfs/src/xattr/xattr_writer.h"
#ifndef NB
#define NB 2
#endif
static sqfs_u64 pos_block; static sqfs_u32 pos_off;
static sqfs_u64 blkaddr[NB + 2]; static unsigned nblk;
struct sqfs_meta_writer_t { sqfs_object_t base; int d; };
static struct sqfs_meta_writer_t MW;
int sqfs_meta_writer_append(sqfs_meta_writer_t *m, const void *d, size_t n)
{
	(void)m; (void)d;
	VP_ASSERT(n == sizeof(sqfs_xattr_id_t) && SQFS_META_BLOCK_SIZE % n == 0, "id entries of 16 bytes");
	pos_off += (sqfs_u32)n;
	if (pos_off == SQFS_META_BLOCK_SIZE) {
		sqfs_u32 step = ND_U32();
		VP_ASSUME(step >= 3 && step <= SQFS_META_BLOCK_SIZE + 2);
		pos_block += step; pos_off = 0;
		VP_ASSERT(nblk < NB + 1, "block log");
		blkaddr[++nblk] = pos_block;
	}
	return ND_BOOL() ? SQFS_ERROR_IO : 0;
}
void sqfs_meta_writer_get_position(const sqfs_meta_writer_t *m, sqfs_u64 *b, sqfs_u32 *o) { (void)m; *b = pos_block; *o = pos_off; }
int sqfs_meta_writer_flush(sqfs_meta_writer_t *m) { (void)m; return 0; }
int sqfs_meta_writer_write_to_file_stub;
/* not reached */
void sqfs_meta_writer_reset(sqfs_meta_writer_t *m) { (void)m; }
sqfs_meta_writer_t *sqfs_meta_writer_create(sqfs_file_t *f, sqfs_compressor_t *c, sqfs_u32 fl) { (void)f; (void)c; (void)fl; return NULL; }
const char *str_table_get_string(const str_table_t *t, size_t i) { (void)t; (void)i; return ""; }
size_t str_table_get_ref_count(const str_table_t *t, size_t i) { (void)t; (void)i; return 0; }

#include "lib/sqfs/src/xattr/xattr_writer_flush.c"

static kv_block_desc_t BLK[NB ? NB : 1];
void harness(void)
{
	static sqfs_xattr_writer_t X;
	sqfs_u64 *loc = NULL; size_t cnt = 0;
	int ret;

	for (int i = 0; i < NB; ++i) { BLK[i].start_ref = ND_U64(); BLK[i].count = ND_SZ(); BLK[i].size_bytes = ND_SZ(); BLK[i].next = (i + 1 < NB) ? &BLK[i + 1] : NULL; }
	X.kv_block_first = NB ? &BLK[0] : NULL; X.kv_block_last = NB ? &BLK[NB - 1] : NULL; X.num_blocks = NB;
	pos_block = 0; pos_off = 0; blkaddr[0] = 0;

	ret = alloc_location_table(&X, &loc, &cnt);
	VP_ASSUME(ret == 0 && loc != NULL);
	VP_ASSERT(cnt == (NB * sizeof(sqfs_xattr_id_t) + SQFS_META_BLOCK_SIZE - 1) / SQFS_META_BLOCK_SIZE, "one location per metadata block of the id table");
	ret = write_id_table(&X, &MW, loc);	/* every out-of-bounds store is a CBMC bounds violation */
	if (ret == 0) {
		for (size_t j = 0; j < NB + 1; ++j)
			if (j < cnt)
				VP_ASSERT(loc[j] == blkaddr[j], "C03: location j is the address of block j of the id table");
		VP_REACH("written");
	} else {
		VP_REACH("io_error");
	}
	free(loc);
}
