/*
 * C01 (data layer, writer side) / C17 (DONT_FRAGMENT): the block processor
 * front end sqfs_block_processor_begin_file / append / end_file
 * (lib/sqfs/src/block_processor/frontend.c, #included) cuts a file that
 * arrives in NAPP appends (sizes = shape parameter SIZES) into blocks of the (scaled)
 * block size BS and hands them to the thread pool.
 *
 * env: the pool is a recording stub (submit copies flags, size, index, data
 *      and may fail); dequeue_block (back end) is a stub that frees one slot
 *      of the backlog.
 * Proved for every split of every content:
 *   - the submitted blocks, concatenated in submission order, are exactly the
 *     bytes that were appended; every block but the last is full;
 *   - block indices count up from 0; the first block carries FIRST_BLOCK;
 *     exactly one block carries LAST_BLOCK and it is submitted last or is the
 *     empty sentinel in front of the tail-end fragment;
 *   - the tail is marked IS_FRAGMENT iff DONT_FRAGMENT was not requested and
 *     it is shorter than a block; with DONT_FRAGMENT no block is a fragment;
 *   - the inode's file size is the number of bytes appended; user flags and
 *     the user pointer travel with every block;
 *   - a failing submit / allocation makes the call fail (C13), and the
 *     sequence rules (begin twice, append without begin) are enforced.
 */
#include "vp.h"
#include <stdlib.h>
#include <string.h>
#include "sqfs/predef.h"
#ifndef BS
#define BS 2
#endif
#ifndef NAPP
#define NAPP 2
#endif
#define MAXIN (2 * BS + 1)
#define MAXBLK 5

static unsigned nsub, fail_submit;
static sqfs_u32 s_flags[MAXBLK], s_size[MAXBLK], s_index[MAXBLK];
static unsigned char s_data[MAXBLK][BS];
static void *s_user[MAXBLK];
static void *s_inode[MAXBLK];
static int pool_failed, dequeues;

#include "lib/sqfs/src/block_processor/frontend.c"

static int submit_stub(thread_pool_t *p, void *ptr)
{
	sqfs_block_t *b = ptr;
	(void)p;
	if (ND_BOOL()) { pool_failed = 1; return -1; }
	VP_ASSERT(nsub < MAXBLK, "harness block log large enough");
	VP_ASSERT(b->size <= BS, "C03: no block is larger than the block size");
	s_flags[nsub] = b->flags; s_size[nsub] = b->size; s_index[nsub] = b->index; s_user[nsub] = b->user; s_inode[nsub] = b->inode;
	for (unsigned i = 0; i < BS; ++i)
		s_data[nsub][i] = (i < b->size) ? b->data[i] : 0;
	nsub++;
	return 0;
}
static int status_stub(thread_pool_t *p) { (void)p; return ND_BOOL() ? SQFS_ERROR_COMPRESSOR : 0; }
int dequeue_block(sqfs_block_processor_t *proc) { dequeues++; if (ND_BOOL()) return SQFS_ERROR_IO; proc->backlog -= 1; return 0; }

static struct { sqfs_block_processor_t p; } PW;
static thread_pool_t POOL;

void harness(void)
{
	sqfs_block_processor_t *proc = &PW.p;
	sqfs_inode_generic_t *inode = NULL;
	unsigned char in[MAXIN];
	size_t n[NAPP], total = 0, off = 0, k, i;
	sqfs_u32 uflags = ND_U32();
	static const size_t sizes[NAPP] = { SIZES };
	int ret, marker;

	POOL.submit = submit_stub; POOL.get_status = status_stub;
	proc->pool = &POOL;
	proc->max_block_size = BS;
	proc->max_backlog = 1000;	/* back-pressure (dequeue inside get_new_block) belongs to C02/C09; a symbolic limit makes symex explore a dequeue loop in front of every block */
	VP_ASSUME((uflags & ~SQFS_BLK_USER_SETTABLE_FLAGS) == 0);

	VP_ASSERT(sqfs_block_processor_append(proc, in, 1) == SQFS_ERROR_SEQUENCE, "append without begin_file is a sequence error");
	VP_ASSERT(sqfs_block_processor_end_file(proc) == SQFS_ERROR_SEQUENCE, "end_file without begin_file is a sequence error");
	ret = sqfs_block_processor_begin_file(proc, &inode, &marker, uflags);
	VP_ASSERT(ret == 0 && inode != NULL, "begin_file creates the inode");
	VP_ASSERT(sqfs_block_processor_begin_file(proc, &inode, &marker, uflags) == SQFS_ERROR_SEQUENCE, "begin_file twice is a sequence error");

	for (i = 0; i < MAXIN; ++i) in[i] = ND_U8();
	for (k = 0; k < NAPP; ++k) {
		/* append sizes are the obligation's shape (SIZES): with symbolic sizes
		   every loop iteration may or may not start a new heap block and symex
		   does not finish; the content, flags and failures stay symbolic */
		n[k] = sizes[k];
		VP_ASSERT(n[k] >= 1 && total + n[k] <= MAXIN, "shape within the input buffer");
		ret = sqfs_block_processor_append(proc, in + total, n[k]);
		if (ret != 0) {
			VP_ASSERT(pool_failed || dequeues > 0, "C13: append fails only when the pool or the back end failed");
			VP_REACH("failed");
			return;
		}
		total += n[k];
	}
	ret = sqfs_block_processor_end_file(proc);
	if (ret != 0) {
		VP_ASSERT(pool_failed || dequeues > 0, "C13: end_file fails only when the pool or the back end failed");
		VP_REACH("failed");
		return;
	}
	VP_ASSERT(!pool_failed, "C13: a rejected block makes the call fail");

	{
		sqfs_u64 fsz = 0; sqfs_u32 fi, fo;
		unsigned nfull = (unsigned)(total / BS), tail = (unsigned)(total % BS), nlast = 0, nfrag = 0, ndata = 0;
		sqfs_inode_get_file_size(inode, &fsz);
		sqfs_inode_get_frag_location(inode, &fi, &fo);
		VP_ASSERT(fsz == total, "C01: the inode's file size is the number of bytes appended");
		VP_ASSERT(fi == 0xFFFFFFFF && fo == 0xFFFFFFFF, "no fragment location before the back end assigns one");
		for (k = 0; k < MAXBLK; ++k) {
			if (k >= nsub) continue;
			VP_ASSERT(s_inode[k] == &inode && (s_size[k] == 0 || s_user[k] == &marker), "the inode travels with every block, the user pointer with every data block");
			VP_ASSERT((s_flags[k] & SQFS_BLK_USER_SETTABLE_FLAGS) == uflags, "C17: the per-file flags travel with every block");
			VP_ASSERT(((s_flags[k] & SQFS_BLK_FIRST_BLOCK) != 0) == (k == 0), "exactly the first block carries FIRST_BLOCK");
			if (s_flags[k] & SQFS_BLK_LAST_BLOCK) nlast++;
			if (s_flags[k] & SQFS_BLK_IS_FRAGMENT) nfrag++;
			if (s_size[k] > 0) {
				VP_ASSERT(s_index[k] == ndata, "data blocks are numbered 0, 1, 2, ... in submission order");
				for (i = 0; i < BS; ++i)
					if (i < s_size[k])
						VP_ASSERT(off + i < total && s_data[k][i] == in[off + i], "C01: the blocks concatenated are exactly the appended bytes");
				off += s_size[k];
				ndata++;
				VP_ASSERT(s_size[k] == BS || ndata == nfull + 1, "every block but the tail is full");
			} else {
				VP_ASSERT((s_flags[k] & SQFS_BLK_LAST_BLOCK) && !(s_flags[k] & SQFS_BLK_IS_FRAGMENT), "an empty block is only ever the end-of-file sentinel");
			}
		}
		VP_ASSERT(off == total && ndata == nfull + (tail ? 1 : 0), "C01: nothing is lost or added");
		VP_ASSERT(nlast <= 1, "at most one LAST_BLOCK marker");
		if (uflags & SQFS_BLK_DONT_FRAGMENT) {
			VP_ASSERT(nfrag == 0, "C17: with DONT_FRAGMENT no block is turned into a fragment");
			VP_ASSERT(nsub >= 1 && (s_flags[nsub - 1] & SQFS_BLK_LAST_BLOCK), "the last block submitted closes the file");
			VP_REACH("dont_fragment");
		} else if (tail) {
			VP_ASSERT(nfrag == 1 && (s_flags[nsub - 1] & SQFS_BLK_IS_FRAGMENT) && s_size[nsub - 1] == tail, "C01: the tail end shorter than a block becomes the (only) fragment, submitted last");
			VP_ASSERT(nfull == 0 || (nsub >= 2 && (s_flags[nsub - 2] & SQFS_BLK_LAST_BLOCK) && s_size[nsub - 2] == 0), "the data blocks in front of a fragment are closed by the sentinel");
			VP_REACH("fragment");
		} else {
			VP_ASSERT(nfrag == 0 && nsub == nfull + 1 && (s_flags[nsub - 1] & SQFS_BLK_LAST_BLOCK) && s_size[nsub - 1] == 0, "a file of whole blocks is closed by the sentinel");
			VP_REACH("whole_blocks");
		}
	}
	VP_ASSERT(!proc->begin_called && proc->blk_current == NULL, "processor is ready for the next file");
	free(inode);
}
