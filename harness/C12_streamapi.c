/*
 * C12 O-4: sqfs_istream_read / skip / splice over a stream that hands out
 * data in ARBITRARY non-empty chunk sizes: result equals the source range,
 * independent of the chunking.
 * real code: lib/sqfs/src/io/stream_api.c
 */
#ifndef N
#define N 4
#endif
#define VP_SRC (N + 2)
#define VP_OUT (N + 2)
#define VP_XFER_MAX N
#include "vp_syscalls.h"
#include "sqfs/io.h"
#include "sqfs/error.h"
#include <string.h>

static size_t chunk_end;	/* end of the chunk currently on offer */
static int src_fail;

static int st_get(sqfs_istream_t *s, const sqfs_u8 **out, size_t *size, size_t want)
{
	(void)s; (void)want;
	if (ND_BOOL()) { src_fail = 1; return SQFS_ERROR_IO; }
	if (vp_src_pos >= vp_src_len) { *out = NULL; *size = 0; return 1; }
	if (chunk_end <= vp_src_pos) {
		size_t k = ND_SZ();
		VP_ASSUME(k >= 1 && k <= vp_src_len - vp_src_pos);
		chunk_end = vp_src_pos + k;
	}
	*out = vp_src + vp_src_pos;
	*size = chunk_end - vp_src_pos;
	return 0;
}
static void st_adv(sqfs_istream_t *s, size_t count)
{
	(void)s;
	VP_ASSERT(count <= chunk_end - vp_src_pos, "consumer never advances past the chunk it was given");
	vp_src_pos += count;
}
static int out_fail;
static int os_append(sqfs_ostream_t *s, const void *data, size_t size)
{
	(void)s;
	if (ND_BOOL()) { out_fail = 1; return SQFS_ERROR_IO; }
	VP_ASSERT(vp_out_pos + size <= VP_OUT, "within sink");
	for (size_t i = 0; i < VP_XFER_MAX; ++i)
		if (i < size)
			vp_out[vp_out_pos + i] = ((const unsigned char *)data)[i];
	vp_out_pos += size;
	return 0;
}

void harness(void)
{
	sqfs_istream_t in;
	sqfs_ostream_t out;
	unsigned char buf[N];
	size_t n = ND_SZ(), i, start;
	sqfs_s32 r;

	memset(&in, 0, sizeof(in));
	memset(&out, 0, sizeof(out));
	in.get_buffered_data = st_get;
	in.advance_buffer = st_adv;
	out.append = os_append;
	for (i = 0; i < VP_SRC; ++i) vp_src[i] = ND_U8();
	vp_src_len = ND_SZ();
	VP_ASSUME(vp_src_len <= VP_SRC);
	VP_ASSUME(n <= N);
	start = 0;

#if MODE == 1
	r = sqfs_istream_read(&in, buf, n);
	if (r >= 0) {
		VP_ASSERT(!src_fail, "error not swallowed");
		VP_ASSERT((size_t)r == (n < vp_src_len ? n : vp_src_len), "C12: read returns min(request, remaining) whatever the chunking");
		for (i = 0; i < N; ++i)
			if (i < (size_t)r)
				VP_ASSERT(buf[i] == vp_src[start + i], "C12: read delivers the source bytes in order");
		VP_ASSERT(vp_src_pos == (size_t)r, "exactly the returned bytes were consumed");
		VP_REACH("ok");
	} else {
		VP_ASSERT(src_fail, "fails only if the source failed");
		VP_REACH("err");
	}
#elif MODE == 2
	{
		int rr = sqfs_istream_skip(&in, n);
		if (rr == 0) {
			VP_ASSERT(!src_fail && vp_src_pos == (n < vp_src_len ? n : vp_src_len), "C12: skip consumes min(request, remaining)");
			VP_REACH("ok");
		} else {
			VP_ASSERT(src_fail, "fails only if the source failed");
			VP_REACH("err");
		}
	}
#else
	r = sqfs_istream_splice(&in, &out, (sqfs_u32)n);
	if (r >= 0) {
		VP_ASSERT(!src_fail && !out_fail, "error not swallowed");
		VP_ASSERT((size_t)r == (n < vp_src_len ? n : vp_src_len) && vp_out_pos == (size_t)r && vp_src_pos == (size_t)r, "C12: splice moves min(request, remaining)");
		for (i = 0; i < N; ++i)
			if (i < (size_t)r)
				VP_ASSERT(vp_out[i] == vp_src[i], "C12: spliced bytes equal the source bytes in order");
		VP_REACH("ok");
	} else {
		VP_ASSERT(src_fail || out_fail, "fails only if source or sink failed");
		VP_REACH("err");
	}
#endif
	(void)buf; (void)r; (void)start;
}
