/*
 * C15 O-4: detection of a compressed tar stream by its magic bytes
 * (lib/xfrm/src/compress.c, #included: xfrm_compressor_id_from_magic) for
 * every buffer of 0..8 bytes: memory safe (never reads beyond `count`), and
 * the answer is a codec id exactly when the buffer starts with that codec's
 * documented magic (RFC 1952, xz file format 1.0.4, RFC 8878, bzip2).
 */
#include "vp.h"
#include <string.h>
#include "lib/xfrm/src/compress.c"
/* never called here */
xfrm_stream_t *compressor_stream_gzip_create(const compressor_config_t *c) { (void)c; return NULL; }
xfrm_stream_t *decompressor_stream_gzip_create(void) { return NULL; }
xfrm_stream_t *compressor_stream_xz_create(const compressor_config_t *c) { (void)c; return NULL; }
xfrm_stream_t *decompressor_stream_xz_create(void) { return NULL; }
xfrm_stream_t *compressor_stream_zstd_create(const compressor_config_t *c) { (void)c; return NULL; }
xfrm_stream_t *decompressor_stream_zstd_create(void) { return NULL; }
xfrm_stream_t *compressor_stream_bzip2_create(const compressor_config_t *c) { (void)c; return NULL; }
xfrm_stream_t *decompressor_stream_bzip2_create(void) { return NULL; }

void harness(void)
{
	unsigned char *buf;
	size_t n = ND_SZ(), i;
	int id, want = -1;

	VP_ASSUME(n <= 8);
	buf = malloc(n ? n : 1);	/* exact size: an over-read is a bounds violation */
	VP_ASSUME(buf != NULL);
	for (i = 0; i < 8; ++i) if (i < n) buf[i] = ND_U8();

	id = xfrm_compressor_id_from_magic(buf, n);

	if (n >= 3 && buf[0] == 0x1F && buf[1] == 0x8B && buf[2] == 0x08) want = XFRM_COMPRESSOR_GZIP;
	else if (n >= 6 && buf[0] == 0xFD && buf[1] == '7' && buf[2] == 'z' && buf[3] == 'X' && buf[4] == 'Z' && buf[5] == 0x00) want = XFRM_COMPRESSOR_XZ;
	else if (n >= 4 && buf[0] == 0x28 && buf[1] == 0xB5 && buf[2] == 0x2F && buf[3] == 0xFD) want = XFRM_COMPRESSOR_ZSTD;
	else if (n >= 3 && buf[0] == 'B' && buf[1] == 'Z' && buf[2] == 'h') want = XFRM_COMPRESSOR_BZIP2;
	VP_ASSERT(id == want, "C15: a stream is taken for a codec's exactly when it starts with that codec's magic");
	VP_ASSERT(id == -1 || id > 0, "codec ids are positive (tar_open_stream treats <= 0 as 'not compressed')");
	if (id > 0) VP_REACH("detected"); else VP_REACH("plain");
	free(buf);
}
