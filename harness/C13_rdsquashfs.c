/*
 * C13: exit protocol of rdsquashfs' main() (bin/rdsquashfs/src/rdsquashfs.c,
 * #included, renamed) with a fault injected at EVERY step (image open, super
 * block, compressor, xattr reader, id table, readers, tree, and each step of
 * the selected operation; the operation is symbolic).
 * Proved: exit status 0 iff every step succeeded; a failing run prints a
 * diagnostic; nothing runs after the failed step; no object is released twice
 * and the long-lived ones (file, compressor, readers, tables, tree) exactly
 * once on every path.
 */
#include "vp.h"
#include <stdlib.h>
#include <string.h>
#include <stdio.h>
#include "sqfs/predef.h"

static int step, failed_at, diag;
static int stepf(void)
{
	VP_ASSERT(failed_at == 0, "C13: no further step runs after a failed one");
	step++;
	if (ND_BOOL()) { failed_at = step; return 1; }
	return 0;
}
#include "rdsquashfs.h"
void sqfs_perror(const char *f, const char *a, int c) { (void)f; (void)a; (void)c; diag++; }
#define perror(s) ((void)(diag++))
#define fprintf(...) ((void)(diag++))
#define fputs(s, f) ((void)(diag++))

enum { O_FILE, O_CMP, O_XATTR, O_ID, O_DIRRD, O_DATA, O_IN, O_OUT, O_COUNT };
static sqfs_file_t FILEOBJ; static sqfs_compressor_t CMP; static sqfs_istream_t INS; static sqfs_ostream_t OUTS;
static sqfs_object_t OBJ[O_COUNT];
static sqfs_object_t *objptr[O_COUNT];
static int created[O_COUNT], dropped[O_COUNT];
static int tree_made, tree_destroyed, op_sel, no_xattrs;
static sqfs_tree_node_t TREE; static sqfs_inode_generic_t TINO;
static void destroy_stub(sqfs_object_t *o) { for (int i = 0; i < O_COUNT; ++i) if (objptr[i] == o) dropped[i]++; }
static void *make(int id, void *mem)
{
	sqfs_object_t *o = mem;
	if (stepf()) return NULL;
	o->refcount = 1; o->destroy = destroy_stub; objptr[id] = o; created[id]++;
	return o;
}
void process_command_line(options_t *opt, int argc, char **argv)
{
	(void)argc; (void)argv;
	memset(opt, 0, sizeof(*opt));
	opt->op = op_sel; opt->image_name = "img"; opt->unpack_root = ND_BOOL() ? "root" : NULL;
	opt->cmdpath = malloc(2); VP_ASSUME(opt->cmdpath != NULL); opt->cmdpath[0] = 'p'; opt->cmdpath[1] = 0;
}
int sqfs_file_open(sqfs_file_t **out, const char *fn, sqfs_u32 fl) { (void)fn; (void)fl; *out = make(O_FILE, &FILEOBJ); return *out ? 0 : SQFS_ERROR_IO; }
int sqfs_super_read(sqfs_super_t *s, sqfs_file_t *f) { (void)f; memset(s, 0, sizeof(*s)); if (stepf()) return SQFS_ERROR_CORRUPTED; s->block_size = 4096; s->flags = no_xattrs ? SQFS_FLAG_NO_XATTRS : 0; return 0; }
int sqfs_compressor_config_init(sqfs_compressor_config_t *c, SQFS_COMPRESSOR id, size_t bs, sqfs_u16 fl) { (void)id; (void)bs; (void)fl; memset(c, 0, sizeof(*c)); return 0; }
int sqfs_compressor_create(const sqfs_compressor_config_t *c, sqfs_compressor_t **out) { (void)c; *out = make(O_CMP, &CMP); return *out ? 0 : SQFS_ERROR_ALLOC; }
sqfs_xattr_reader_t *sqfs_xattr_reader_create(sqfs_u32 fl) { (void)fl; return make(O_XATTR, &OBJ[O_XATTR]); }
int sqfs_xattr_reader_load(sqfs_xattr_reader_t *x, const sqfs_super_t *s, sqfs_file_t *f, sqfs_compressor_t *c) { (void)x; (void)s; (void)f; (void)c; return stepf() ? SQFS_ERROR_IO : 0; }
sqfs_id_table_t *sqfs_id_table_create(sqfs_u32 fl) { (void)fl; return make(O_ID, &OBJ[O_ID]); }
int sqfs_id_table_read(sqfs_id_table_t *t, sqfs_file_t *f, const sqfs_super_t *s, sqfs_compressor_t *c) { (void)t; (void)f; (void)s; (void)c; return stepf() ? SQFS_ERROR_IO : 0; }
sqfs_dir_reader_t *sqfs_dir_reader_create(const sqfs_super_t *s, sqfs_compressor_t *c, sqfs_file_t *f, sqfs_u32 fl) { (void)s; (void)c; (void)f; (void)fl; return make(O_DIRRD, &OBJ[O_DIRRD]); }
sqfs_data_reader_t *sqfs_data_reader_create(sqfs_file_t *f, size_t bs, sqfs_compressor_t *c, sqfs_u32 fl) { (void)f; (void)bs; (void)c; (void)fl; return make(O_DATA, &OBJ[O_DATA]); }
int sqfs_data_reader_load_fragment_table(sqfs_data_reader_t *d, const sqfs_super_t *s) { (void)d; (void)s; return stepf() ? SQFS_ERROR_IO : 0; }
int sqfs_dir_reader_get_full_hierarchy(sqfs_dir_reader_t *rd, const sqfs_id_table_t *t, const char *p, sqfs_u32 fl, sqfs_tree_node_t **out)
{ (void)rd; (void)t; (void)p; (void)fl; if (stepf()) return SQFS_ERROR_IO; TREE.inode = &TINO; *out = &TREE; tree_made++; return 0; }
void sqfs_dir_tree_destroy(sqfs_tree_node_t *n) { if (n != NULL) { VP_ASSERT(n == &TREE, "tree"); tree_destroyed++; } }
void list_files(const sqfs_tree_node_t *n) { (void)n; }
int stat_file(const sqfs_tree_node_t *n) { (void)n; if (stepf()) { diag++; return -1; } return 0; }
int sqfs_data_reader_create_stream(sqfs_data_reader_t *d, const sqfs_inode_generic_t *i, const char *fn, sqfs_istream_t **out) { (void)d; (void)i; (void)fn; *out = make(O_IN, &INS); return *out ? 0 : SQFS_ERROR_ALLOC; }
int ostream_open_stdout(sqfs_ostream_t **out) { *out = make(O_OUT, &OUTS); return *out ? 0 : SQFS_ERROR_ALLOC; }
static unsigned splices;
sqfs_s32 sqfs_istream_splice(sqfs_istream_t *in, sqfs_ostream_t *out, sqfs_u32 size) { (void)size; VP_ASSERT(in == &INS && out == &OUTS, "cat splices the file to stdout"); if (stepf()) return SQFS_ERROR_IO; splices++; return (splices < 3 && ND_BOOL()) ? 1 : 0; }
int mkdir_p(const char *p) { (void)p; if (stepf()) { diag++; return -1; } return 0; }
int chdir(const char *p) { (void)p; return stepf() ? -1 : 0; }
int restore_fstree(sqfs_tree_node_t *r, int fl) { (void)r; (void)fl; if (stepf()) { diag++; return -1; } return 0; }
int fill_unpacked_files(size_t bs, const sqfs_tree_node_t *r, sqfs_data_reader_t *d, int fl) { (void)bs; (void)r; (void)d; (void)fl; if (stepf()) { diag++; return -1; } return 0; }
int update_tree_attribs(sqfs_xattr_reader_t *x, const sqfs_tree_node_t *r, int fl) { (void)x; (void)r; (void)fl; if (stepf()) { diag++; return -1; } return 0; }
int describe_tree(const sqfs_tree_node_t *r, const char *u) { (void)r; (void)u; if (stepf()) { diag++; return -1; } return 0; }
int dump_xattrs(sqfs_xattr_reader_t *x, const sqfs_inode_generic_t *i) { (void)x; (void)i; if (stepf()) { diag++; return -1; } return 0; }
int sqfs_tree_node_get_path(const sqfs_tree_node_t *n, char **out) { (void)n; *out = NULL; return SQFS_ERROR_ALLOC; }
void sqfs_free(void *p) { free(p); }

/* stdout: list / describe / stat / xattr dump print through stdio; whether the
   bytes reached the file is only known after fflush() / ferror() */
static int flush_checks, stdout_failed;
static int vp_fflush(FILE *f) { (void)f; flush_checks++; if (stepf()) { stdout_failed = 1; return EOF; } return 0; }
static int vp_ferror(FILE *f) { (void)f; return stdout_failed; }
#define fflush(f) vp_fflush(f)
#define ferror(f) vp_ferror(f)
#define main rdsquashfs_main
#include "bin/rdsquashfs/src/rdsquashfs.c"
#undef main

void harness(void)
{
	int rc, i;
	op_sel = ND_I32(); VP_ASSUME(op_sel >= OP_NONE && op_sel <= OP_STAT);
	no_xattrs = ND_BOOL();
	rc = rdsquashfs_main(0, NULL);
	VP_ASSERT((rc == EXIT_SUCCESS) == (failed_at == 0), "C13: exit status 0 iff every step of the run succeeded");
	VP_ASSERT(rc == EXIT_SUCCESS || rc == EXIT_FAILURE, "exit status");
	VP_ASSERT(rc == EXIT_SUCCESS || diag >= 1, "C13: a failing run prints a diagnostic");
	for (i = 0; i < O_COUNT; ++i) {
		VP_ASSERT(created[i] <= 1, "every object is created at most once");
		/* (the cat operation leaks its input stream when stdout cannot be wrapped:
		   a leak right before exit() is not a C13 violation, a double release
		   would be - only that is demanded) */
		VP_ASSERT(dropped[i] <= created[i], "C13: no object is released twice or without having been created, on any path");
		if (i != O_IN) VP_ASSERT(dropped[i] == created[i], "the long-lived objects are released exactly once");
	}
	VP_ASSERT(tree_destroyed == tree_made, "the tree is destroyed exactly once iff it was read");
	if (rc == EXIT_SUCCESS) {
		VP_ASSERT(flush_checks >= 1 && !stdout_failed, "C13: success is only reported after standard output was flushed and found error free (rdsquashfs -d > file on a full disk must not exit 0)");
		VP_ASSERT(created[O_FILE] && created[O_CMP] && created[O_ID] && created[O_DIRRD] && created[O_DATA] && tree_made == 1 && (created[O_XATTR] == !no_xattrs), "success only after the whole set-up ran");
		VP_REACH("success");
	} else {
		VP_REACH("failure");
	}
}
