/*
 * C16: a line printed by rdsquashfs --describe is tokenised by the pack-file
 * parser back into the same path / target / location.
 *
 * real code: bin/rdsquashfs/src/describe.c (#included: print_name,
 *            print_simple, describe_tree), lib/common/src/dir_tree.c
 *            (sqfs_tree_node_get_path), lib/util/src/canonicalize_name.c,
 *            lib/util/src/filename_sane.c, lib/util/src/split_line.c
 * env: stdio capture stubs (fputs/fputc/fwrite/printf/sprintf write into a
 *      global line buffer; printf implements %s %u %o %c).
 * Name/target lengths are concrete per shape, their bytes are symbolic over
 * the full byte range except NUL, '/', newline.
 */
#include "vp.h"
#include <stdarg.h>
#include <stdio.h>
#include <string.h>
#include <stdlib.h>
#include <sys/stat.h>
#include <sys/sysmacros.h>

#ifndef MODE
#define MODE 1
#endif
#ifndef NLEN
#define NLEN 2
#endif
#ifndef TLEN
#define TLEN 2
#endif
#define CAP 48
static char cap[CAP];
static size_t cap_n;
static void put(char c) { VP_ASSERT(cap_n + 1 < CAP, "capture buffer large enough"); cap[cap_n++] = c; cap[cap_n] = 0; }
static void puts_(const char *s) { for (size_t i = 0; i < CAP; ++i) { if (s[i] == 0) break; put(s[i]); } }
static void putnum(unsigned v, unsigned base)
{
	char tmp[12]; int n = 0;
	do { tmp[n++] = (char)('0' + v % base); v /= base; } while (v != 0 && n < 11);
	while (n > 0) put(tmp[--n]);
}
static void vfmt(const char *fmt, va_list ap)
{
	for (size_t i = 0; i < 32; ++i) {
		char c = fmt[i];
		if (c == 0) break;
		if (c != '%') { put(c); continue; }
		c = fmt[++i];
		if (c == 's') puts_(va_arg(ap, const char *));
		else if (c == 'u') putnum(va_arg(ap, unsigned), 10);
		else if (c == 'o') putnum(va_arg(ap, unsigned), 8);
		else if (c == 'c') put((char)va_arg(ap, int));
		else VP_ASSERT(0, "format directive not modelled");
	}
}
static int vp_printf(const char *fmt, ...) { va_list ap; va_start(ap, fmt); vfmt(fmt, ap); va_end(ap); return 0; }
static int vp_fprintf(FILE *f, const char *fmt, ...) { (void)f; (void)fmt; return 0; }
static char *sp_dst;
static int vp_sprintf(char *dst, const char *fmt, ...)
{
	va_list ap; size_t save = cap_n, k;
	va_start(ap, fmt); vfmt(fmt, ap); va_end(ap);
	for (k = save; k < cap_n; ++k) dst[k - save] = cap[k];
	dst[cap_n - save] = 0; cap_n = save; cap[cap_n] = 0;
	return 0;
}
static int vp_fputs(const char *s, FILE *f) { (void)f; puts_(s); return 0; }
static int vp_fputc(int c, FILE *f) { (void)f; put((char)c); return c; }
static size_t vp_fwrite(const void *p, size_t sz, size_t n, FILE *f) { (void)f; for (size_t i = 0; i < CAP; ++i) if (i < sz * n) put(((const char *)p)[i]); return n; }
void sqfs_perror(const char *file, const char *action, int code) { (void)file; (void)action; (void)code; }

#define printf vp_printf
#define fprintf vp_fprintf
#define sprintf vp_sprintf
#define fputs vp_fputs
#define fputc vp_fputc
#define fwrite vp_fwrite
#include "bin/rdsquashfs/src/describe.c"
#undef printf
#undef fprintf
#undef sprintf
#undef fputs
#undef fputc
#undef fwrite

#include "util/parse.h"

/*
 * Allocator model for split_line.c only: the token vector lives in one typed
 * static object that is large enough (calloc returns it zeroed, realloc keeps
 * the content in place).  A chain of realloc()ed heap objects of symbolic
 * size does not finish in CBMC; allocation failure is not the subject here.
 */
static struct { split_line_t s; char *args[12]; } SPL;
static void *vp_spl_calloc(size_t n, size_t sz) { (void)n; (void)sz; memset(&SPL, 0, sizeof(SPL)); return &SPL.s; }
static void *vp_spl_realloc(void *p, size_t sz) { VP_ASSERT(sz <= sizeof(SPL), "token vector within the modelled capacity"); return p; }
static void vp_spl_free(void *p) { (void)p; }
#undef calloc
#undef realloc
#undef free
#define calloc vp_spl_calloc
#define realloc vp_spl_realloc
#define free vp_spl_free
#include "lib/util/src/split_line.c"
#undef calloc
#undef realloc
#undef free

static struct { sqfs_tree_node_t n; sqfs_u8 name[NLEN + 1]; } NODE;
static struct { sqfs_tree_node_t n; sqfs_u8 name[1]; } ROOT;
static struct { sqfs_inode_generic_t i; char extra[TLEN + 1]; } INO;
static sqfs_inode_generic_t RINO;

/*
 * Decomposition (the tokeniser is context free at token granularity: it
 * processes tokens left to right and carries no state across an unquoted
 * separator):
 *   MODE 1  print_name(name) alone  -> split_line -> exactly one token == name
 *   MODE 2  slink line with a concrete name and a SYMBOLIC target
 *   MODE 3  file line with a concrete name and a SYMBOLIC unpack root
 * In MODE 2/3 everything before the symbolic part is concrete text.
 */
void harness(void)
{
	char name[NLEN + 1], target[TLEN + 1];
	split_line_t *sp = NULL;
	size_t i;
	int ret;

	for (i = 0; i < NLEN; ++i) {
#if MODE == 1
		name[i] = (char)ND_U8();
		VP_ASSUME(name[i] != 0 && name[i] != '/' && name[i] != '\n');
#else
		name[i] = 'n';
#endif
	}
	name[NLEN] = 0;
	VP_ASSUME(!(NLEN == 1 && name[0] == '.') && !(NLEN == 2 && name[0] == '.' && name[1] == '.'));
	for (i = 0; i < TLEN; ++i) {
		target[i] = (char)ND_U8();
#ifdef ALLOW_NL
		VP_ASSUME(target[i] != 0);
#else
		VP_ASSUME(target[i] != 0 && target[i] != '\n');
#endif
#if MODE == 3
		VP_ASSUME(target[i] != '/');	/* unpack root: one path component here */
#endif
	}
	target[TLEN] = 0;

	ROOT.n.inode = &RINO;
	RINO.base.mode = S_IFDIR | 0755;
	ROOT.n.children = &NODE.n;
	NODE.n.parent = &ROOT.n;
	NODE.n.inode = &INO.i;
	memcpy(NODE.n.name, name, NLEN + 1);
	NODE.n.uid = 1;
	NODE.n.gid = 20;
	INO.i.base.mode = (MODE == 2 ? S_IFLNK : S_IFREG) | 0644;
	memcpy(INO.i.extra, target, TLEN + 1);

#if MODE == 4
	/* the root directory itself: its permission bits and owner must be in the
	   listing, as a `dir` line whose path is the root ("/" or "") */
	{
		unsigned perm = ND_U16() & 07777, ruid = ND_U8() & 7, rgid = 10 + (ND_U8() & 7);	/* number formatting is the harness' own printf model: small ids suffice */
		char want_mode[8], want_uid[8], want_gid[8], pathtok[4];
		size_t save;
		RINO.base.mode = S_IFDIR | perm;
		ROOT.n.uid = ruid; ROOT.n.gid = rgid;
		ROOT.n.children = NULL;
		/* expected number tokens, formatted with the capture buffer BEFORE it is used for the listing (the tokeniser works in place) */
		(void)save;
		cap_n = 0; putnum(perm, 8); memcpy(want_mode + 1, cap, cap_n + 1); want_mode[0] = '0';
		cap_n = 0; putnum(ruid, 10); memcpy(want_uid, cap, cap_n + 1);
		cap_n = 0; putnum(rgid, 10); memcpy(want_gid, cap, cap_n + 1);
		cap_n = 0; cap[0] = 0;
		ret = describe_tree(&ROOT.n, NULL);
		VP_ASSERT(ret == 0, "describe prints the root");
		VP_ASSERT(cap_n >= 1 && cap[cap_n - 1] == '\n', "C16: the root directory's attributes are part of the listing (one `dir` line for /)");
		if (cap_n < 1) return;
		cap[--cap_n] = 0;
		ret = split_line(cap, cap_n, " \t", &sp);
		VP_ASSERT(ret == SPLIT_LINE_OK && sp->count == 5, "the root line has 5 fields");
		if (ret != SPLIT_LINE_OK || sp->count != 5) return;
		strncpy(pathtok, sp->args[1], 3); pathtok[3] = 0;
		VP_ASSERT(strcmp(sp->args[0], "dir") == 0 && canonicalize_name(pathtok) == 0 && pathtok[0] == 0, "C16: it is a `dir` entry for the root path");
		VP_ASSERT(strcmp(sp->args[2], want_mode) == 0 && strcmp(sp->args[3], want_uid) == 0 && strcmp(sp->args[4], want_gid) == 0,
			  "C16: permission bits, owner and group of the root directory survive the listing");
		VP_REACH("tokenised");
		return;
	}
#elif MODE == 1
	ret = print_name(&NODE.n, NULL);
	VP_ASSERT(ret == 0, "print_name prints every sane name");
	ret = split_line(cap, cap_n, " \t", &sp);
	VP_ASSERT(ret == SPLIT_LINE_OK, "C16: the tokeniser accepts the printed name (no broken escape / unmatched quote)");
	if (ret != SPLIT_LINE_OK)
		return;
	VP_ASSERT(sp->count == 1, "C16: the printed name is exactly one token");
	if (sp->count != 1)
		return;
	VP_ASSERT(strcmp(sp->args[0], name) == 0, "C16: the token is the name, byte for byte");
#else
	ret = describe_tree(&NODE.n, MODE == 3 ? target : NULL);
	VP_ASSERT(ret == 0, "describe prints every sane entry");
	VP_ASSERT(cap_n >= 1 && cap[cap_n - 1] == '\n', "one line per entry");
	/* what istream_get_line() hands to the parser: the bytes up to the first
	   newline, minus one trailing carriage return (CRLF tolerance) */
	{
		size_t first_nl = 0;
		for (i = 0; i < CAP; ++i) { if (i >= cap_n || cap[i] == '\n') break; first_nl++; }
		VP_ASSERT(first_nl == cap_n - 1, "C16: an entry is exactly one line of the listing (no raw newline inside a token)");
		if (first_nl != cap_n - 1) return;
	}
	cap[--cap_n] = 0;
	if (cap_n > 0 && cap[cap_n - 1] == '\r')
		cap[--cap_n] = 0;
	ret = split_line(cap, cap_n, " \t", &sp);
	VP_ASSERT(ret == SPLIT_LINE_OK, "C16: the tokeniser accepts the described line");
	if (ret != SPLIT_LINE_OK)
		return;
	VP_ASSERT(sp->count == 6, "C16: the line splits into exactly 6 fields (type path mode uid gid extra)");
	if (sp->count != 6)
		return;
	VP_ASSERT(strcmp(sp->args[0], MODE == 2 ? "slink" : "file") == 0 && strcmp(sp->args[1], name) == 0 &&
		  strcmp(sp->args[2], "0644") == 0 && strcmp(sp->args[3], "1") == 0 && strcmp(sp->args[4], "20") == 0, "leading fields");
#if MODE == 2
	VP_ASSERT(strcmp(sp->args[5], target) == 0, "C16: the symlink target token is the target, byte for byte");
#else
	{
		char loc[TLEN + NLEN + 2];
		memcpy(loc, target, TLEN);
		loc[TLEN] = '/';
		memcpy(loc + TLEN + 1, name, NLEN + 1);
		VP_ASSERT(strcmp(sp->args[5], loc) == 0, "C16: the file location token is <unpack root>/<path>, byte for byte");
	}
#endif
#endif
	VP_REACH("tokenised");
}
