/*
 * C13 O-1 (+ C19): allocation failure inside the xattr reader.
 * real code: lib/sqfs/src/xattr/xattr_reader.c (#included), lib/util/src/alloc.c
 * env: memfile; sqfs_meta_reader_create() and the metadata reader copy hook
 *      may fail (return NULL) at the solver's choice = allocation failure.
 * MODE 1 sqfs_xattr_reader_load: success (0) must mean the reader is usable
 *        (both metadata readers exist) - a swallowed allocation failure would
 *        report success and crash on first use.
 * MODE 2 xattr_reader_copy: a failing copy returns NULL and leaves the
 *        ORIGINAL untouched (its metadata readers are not released).
 */
#define VP_IMG 48
#define VP_MAXIO 32
#include "vp_sqfs_stubs.h"
#include "sqfs/meta_reader.h"
#include "sqfs/super.h"
#include "sqfs/xattr.h"
#include <stdlib.h>

struct sqfs_meta_reader_t { sqfs_object_t base; int id; };
static struct sqfs_meta_reader_t MR[4];
static unsigned mr_used, mr_destroyed[4], alloc_failed;
static void mr_destroy(sqfs_object_t *o) { mr_destroyed[((struct sqfs_meta_reader_t *)o)->id]++; }
static sqfs_object_t *mr_copy(const sqfs_object_t *o);
static sqfs_meta_reader_t *mr_new(void)
{
	struct sqfs_meta_reader_t *m;
	if (ND_BOOL()) { alloc_failed = 1; return NULL; }
	VP_ASSERT(mr_used < 4, "stub pool");
	m = &MR[mr_used];
	m->id = mr_used++;
	m->base.refcount = 1;
	m->base.destroy = mr_destroy;
	m->base.copy = mr_copy;
	return m;
}
static sqfs_object_t *mr_copy(const sqfs_object_t *o) { (void)o; return (sqfs_object_t *)mr_new(); }
sqfs_meta_reader_t *sqfs_meta_reader_create(sqfs_file_t *f, sqfs_compressor_t *c, sqfs_u64 s, sqfs_u64 l) { (void)f; (void)c; (void)s; (void)l; return mr_new(); }
int sqfs_meta_reader_seek(sqfs_meta_reader_t *m, sqfs_u64 b, size_t o) { (void)m; (void)b; (void)o; return 0; }
int sqfs_meta_reader_read(sqfs_meta_reader_t *m, void *d, size_t s) { (void)m; (void)d; (void)s; return SQFS_ERROR_IO; }
void sqfs_meta_reader_get_position(const sqfs_meta_reader_t *m, sqfs_u64 *b, size_t *o) { (void)m; *b = 0; *o = 0; }

#include "lib/sqfs/src/xattr/xattr_reader.c"

static sqfs_xattr_reader_t XR;

void harness(void)
{
	sqfs_file_t *f = vp_file_init();
	sqfs_super_t super;
	int ret;

	memset(&super, 0, sizeof(super));
	XR.base.refcount = 1;
	XR.base.destroy = xattr_reader_destroy;
	XR.base.copy = xattr_reader_copy;
#if MODE == 1
	vp_img_symbolic();
	super.flags = ND_U16();
	super.xattr_id_table_start = ND_U64();
	super.bytes_used = ND_U64();
	super.id_table_start = ND_U64();
	ret = sqfs_xattr_reader_load(&XR, &super, f, NULL);
	if (ret == 0 && !(super.flags & SQFS_FLAG_NO_XATTRS) && super.xattr_id_table_start != 0xFFFFFFFFFFFFFFFFULL) {
		VP_ASSERT(XR.idrd != NULL && XR.kvrd != NULL, "C13: load reports success only if both metadata readers could be created");
		VP_ASSERT(!alloc_failed, "C13: an allocation failure is never reported as success");
		VP_REACH("loaded");
	} else if (ret != 0) {
		VP_ASSERT(XR.idrd == NULL && XR.kvrd == NULL && XR.id_block_starts == NULL, "a failed load leaves no half-built state");
		if (alloc_failed)
			VP_REACH("alloc_failure_reported");
	}
#else
	{
		sqfs_object_t *c;
		XR.idrd = mr_new();
		XR.kvrd = mr_new();
		VP_ASSUME(XR.idrd != NULL && XR.kvrd != NULL);
		alloc_failed = 0;
		XR.num_id_blocks = 0;
		XR.id_block_starts = NULL;
		c = xattr_reader_copy((sqfs_object_t *)&XR);
		if (c == NULL) {
			VP_ASSERT(mr_destroyed[0] == 0 && mr_destroyed[1] == 0 && XR.idrd->base.refcount == 1 && XR.kvrd->base.refcount == 1,
				  "C13/C19: a failed copy leaves the original's metadata readers alone");
			VP_REACH("copy_failed");
		} else {
			sqfs_xattr_reader_t *cp = (sqfs_xattr_reader_t *)c;
			VP_ASSERT(cp->idrd != XR.idrd && cp->kvrd != XR.kvrd && cp->idrd != NULL && cp->kvrd != NULL, "C19: copy owns its own metadata readers");
			VP_ASSERT(c->destroy == xattr_reader_destroy && c->copy == xattr_reader_copy, "copy has the hooks of its kind");
			VP_REACH("copied");
		}
	}
#endif
	(void)ret; (void)f;
}
