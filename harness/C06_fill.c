/*
 * C06 / C13: the data phase of rdsquashfs unpacking, fill_unpacked_files()
 * with gen_file_list_dfs(), add_file(), fill_files(), clear_file_list()
 * (bin/rdsquashfs/src/fill_files.c, #included), on the tree
 *   root -> A -> (if A is a directory) B
 * whose names are NL symbolic bytes each, over the REAL
 * sqfs_tree_node_get_path(), canonicalize_name() and is_filename_sane().
 *
 * C06: every path handed to sqfs_ostream_open_file() is a clean relative
 *      path that is exactly the chain of entry names below the unpack root;
 *      an entry with an insane name ('.', '..', containing '/') and its whole
 *      subtree are never opened.
 * C13: every step (open, stream creation, up to 3 splices, flush) may fail:
 *      the function fails iff a step failed, prints a diagnostic, stops at
 *      the failure, flushes before reporting success and releases every path
 *      string and stream exactly once (memory-leak check + counters).
 */
#include "vp.h"
#include <sys/stat.h>
#include <string.h>
#include <stdlib.h>
#include <stdio.h>
#ifndef NL
#define NL 2
#endif
#define PMAX (2 * NL + 2)
#include "rdsquashfs.h"

static int step, failed_at, diag;
static int stepf(void)
{
	VP_ASSERT(failed_at == 0, "C13: no further step runs after a failed one");
	step++;
	if (ND_BOOL()) { failed_at = step; return 1; }
	return 0;
}
void sqfs_perror(const char *f, const char *a, int c) { (void)f; (void)a; (void)c; diag++; }
#define perror(s) ((void)(diag++))
#define fprintf(...) ((void)(diag++))
#define printf(...) ((void)0)

static const char *nameA, *nameB;
static int lenA, lenB;
static unsigned opens, drops_out, drops_in, flushed, streams;
static sqfs_ostream_t FOUT;
static sqfs_istream_t FIN;
static const sqfs_inode_generic_t *stream_inode;
static const char *open_path;

static void vp_check_path(const char *p)
{
	int i = 0, comp_start = 0, ncomp = 0;
	VP_ASSERT(p[0] != '\0', "C06: path given to the kernel is not empty");
	VP_ASSERT(p[0] != '/', "C06: path given to the kernel is relative (never absolute)");
	for (i = 0; i <= PMAX; ++i) {
		if (p[i] == '/' || p[i] == '\0') {
			int l = i - comp_start;
			VP_ASSERT(l != 0, "C06: no empty path component");
			VP_ASSERT(!(l == 1 && p[comp_start] == '.'), "C06: no '.' component");
			VP_ASSERT(!(l == 2 && p[comp_start] == '.' && p[comp_start + 1] == '.'), "C06: no '..' component reaches the kernel");
			ncomp++;
			comp_start = i + 1;
			if (p[i] == '\0')
				break;
		}
	}
	VP_ASSERT(i <= PMAX, "path length within the modelled bound");
	VP_ASSERT(ncomp <= 2, "C06: path depth equals the node's depth in the tree");
	VP_ASSERT(strncmp(p, nameA, lenA) == 0 && (p[lenA] == '\0' || (p[lenA] == '/' && strcmp(p + lenA + 1, nameB) == 0)),
		  "C06: path is exactly the chain of entry names from the unpack root");
}
static void d_out(sqfs_object_t *o) { (void)o; drops_out++; }
static void d_in(sqfs_object_t *o) { (void)o; drops_in++; }
static int flush_stub(sqfs_ostream_t *s) { (void)s; if (stepf()) return SQFS_ERROR_IO; flushed++; return 0; }
int sqfs_ostream_open_file(sqfs_ostream_t **out, const char *path, sqfs_u32 flags)
{
	vp_check_path(path);
	VP_ASSERT(flags & SQFS_FILE_OPEN_OVERWRITE, "data phase reopens the files created by the tree phase");
	opens++; open_path = path;
	if (stepf()) return SQFS_ERROR_IO;
	FOUT.base.refcount = 1; FOUT.base.destroy = d_out; FOUT.flush = flush_stub; *out = &FOUT; return 0;
}
int sqfs_data_reader_create_stream(sqfs_data_reader_t *d, const sqfs_inode_generic_t *ino, const char *fn, sqfs_istream_t **out)
{
	(void)d;
	VP_ASSERT(fn == open_path, "stream is labelled with the file's path");
	if (stepf()) return SQFS_ERROR_ALLOC;
	stream_inode = ino; streams++;
	FIN.base.refcount = 1; FIN.base.destroy = d_in; *out = &FIN; return 0;
}
static unsigned splices;
sqfs_s32 sqfs_istream_splice(sqfs_istream_t *in, sqfs_ostream_t *out, sqfs_u32 size)
{
	(void)size;
	VP_ASSERT(in == &FIN && out == &FOUT, "image data is spliced into the opened file");
	if (stepf()) return SQFS_ERROR_IO;
	splices++;
	return (splices < 3 && ND_BOOL()) ? 1 : 0;
}
void sqfs_free(void *p) { free(p); }
#if VP_CBMC
/* one file at most is listed in this shape: sorting is the identity */
void qsort(void *b, size_t n, size_t s, int (*cmp)(const void *, const void *)) { (void)b; (void)s; (void)cmp; VP_ASSERT(n <= 1, "one file in this shape"); }
#endif

#include "bin/rdsquashfs/src/fill_files.c"

static struct { sqfs_tree_node_t n; sqfs_u8 name[NL + 1]; } NA, NB, ROOT;
static sqfs_inode_generic_t IA, IB, IR;

#ifdef GROW
/* the growth branch of add_file() on its own: first use allocates 256 slots;
   a failing realloc is reported and leaves the list consistent */
void harness(void)
{
	int ret;
	NA.n.name[0] = 'a'; NA.n.name[1] = 0;
	IR.base.mode = S_IFDIR | 0755; ROOT.n.inode = &IR; ROOT.n.children = &NA.n;
	NA.n.inode = &IA; NA.n.parent = &ROOT.n; IA.base.mode = S_IFREG | 0644;
	ret = add_file(&NA.n);
	if (ret == 0) {
		VP_ASSERT(max_files == 256 && num_files == 1 && files != NULL && files[0].inode == &IA && files[0].path[0] == 'a' && files[0].path[1] == 0,
			  "first use allocates 256 slots and records path and inode");
		VP_REACH("grown");
	} else {
		VP_ASSERT(diag >= 1, "C13: a failing allocation is diagnosed");
		VP_ASSERT(num_files == 0 && (files == NULL) == (max_files == 0) && (max_files == 0 || max_files == 256), "C13: a failed insertion leaves the list consistent (nothing half-recorded)");
		VP_REACH("alloc_failed");
	}
	clear_file_list();
	VP_ASSERT(num_files == 0 && files == NULL && max_files == 0, "list cleared");
}
#else
void harness(void)
{
	int flags = ND_I32(), ret, i, a_sane, b_sane, expect_open;

	for (i = 0; i < NL; ++i) {
		NA.n.name[i] = ND_U8();
		NB.n.name[i] = ND_U8();
	}
	NA.n.name[NL] = 0; NB.n.name[NL] = 0;
	nameA = (const char *)NA.n.name; nameB = (const char *)NB.n.name;
	lenA = (int)strlen(nameA); lenB = (int)strlen(nameB);

	IR.base.mode = S_IFDIR | 0755;
	ROOT.n.inode = &IR; ROOT.n.children = &NA.n;
	NA.n.inode = &IA; NA.n.parent = &ROOT.n;
#if ADIR
	IA.base.mode = S_IFDIR | 0755;
	IB.base.mode = (ND_BOOL() ? S_IFREG : S_IFCHR) | 0644;
	NB.n.inode = &IB; NB.n.parent = &NA.n; NA.n.children = &NB.n;
#else
	IA.base.mode = (ND_BOOL() ? S_IFREG : S_IFLNK) | 0644;
#endif
	flags &= (UNPACK_QUIET | UNPACK_NO_SPARSE);

#ifdef PRESET_CAP
	/* shape restriction (engine): the list starts with capacity PRESET_CAP
	   instead of growing to 256 entries (a 4 KiB heap object with pointer
	   members makes the SAT conversion run out of memory); the growth branch
	   is exercised by the _grow obligation with a failing/succeeding realloc */
	files = malloc(sizeof(files[0]) * PRESET_CAP);
	VP_ASSUME(files != NULL);
	max_files = PRESET_CAP;
#endif
	ret = fill_unpacked_files(4096, &ROOT.n, NULL, flags | UNPACK_QUIET);

	a_sane = is_filename_sane(nameA, true);
	b_sane = is_filename_sane(nameB, true);
#if ADIR
	expect_open = a_sane && b_sane && S_ISREG(IB.base.mode);
#else
	expect_open = a_sane && S_ISREG(IA.base.mode);
#endif
	if (!expect_open) {
		VP_ASSERT(opens == 0, "C06: an entry with an insane name and its whole subtree (and anything that is not a regular file) is never opened");
		VP_REACH("not_opened");
	}
	/* an EMPTY name passes is_filename_sane() and is refused by sqfs_tree_node_get_path() */
	if (ret != 0 && failed_at == 0) {
		VP_ASSERT(lenA == 0 || (ADIR && lenB == 0), "unpacking fails without a failing step only for an empty entry name");
		VP_ASSERT(opens == 0, "nothing was opened");
	} else {
		VP_ASSERT((ret == 0) == (failed_at == 0), "C13: the data phase succeeds iff every step succeeded");
	}
	VP_ASSERT(ret == 0 || diag >= 1, "C13: a failing data phase prints a diagnostic");
	VP_ASSERT(drops_out == (FOUT.base.refcount ? 1 : 0) && drops_in == (FIN.base.refcount ? 1 : 0), "C13: both streams are released exactly once");
	VP_ASSERT(num_files == 0 && files == NULL, "the file list is cleared on every path");
	if (ret == 0 && opens == 1) {
		VP_ASSERT(flushed == 1 && streams == 1, "C13: the file is flushed before success is reported");
		VP_ASSERT(stream_inode == (ADIR ? &IB : &IA), "the data of the node's own inode is written to its path");
		VP_REACH("unpacked");
	}
	if (ret != 0) VP_REACH("failure");
}
#endif
