/*
 * C19: copy of an xattr writer (lib/sqfs/src/xattr/xattr_writer.c, #included:
 * xattr_writer_copy) that already holds NB recorded key-value blocks.
 * The block descriptors live as keys inside red-black tree nodes and are
 * chained through their `next` members (kv_block_first .. kv_block_last).
 *
 * env: contract stubs of the containers: str_table_copy / array_init_copy
 *      succeed or fail; rbtree_copy duplicates the NB nodes into storage owned
 *      by the copy (memcpy of tree header and nodes, as the real one does);
 *      rbtree_lookup finds the duplicate of a descriptor by (start, count).
 * Post: the copy's chain consists of the copy's OWN descriptors, in the same
 * order with the same content; the original's chain is untouched; the copy's
 * tree compares against the copy's pair array (key_context), not the
 * original's.
 */
#include "vp.h"
#include <stdlib.h>
#include <string.h>
#ifndef NB
#define NB 2
#endif
#include "lib/sqfs/src/xattr/xattr_writer.h"

typedef struct { rbtree_node_t n; kv_block_desc_t key; } nodew_t;
static nodew_t ORIG[NB + 1], COPY[NB + 1];
static int str_copies, str_cleanups, arr_copies, arr_cleanups, tree_copied;

int str_table_init(str_table_t *t) { (void)t; return 0; }
void str_table_cleanup(str_table_t *t) { (void)t; str_cleanups++; }
int str_table_copy(str_table_t *d, const str_table_t *s) { (void)d; (void)s; if (ND_BOOL()) return SQFS_ERROR_ALLOC; str_copies++; return 0; }
int array_init(array_t *a, size_t sz, size_t cap) { (void)a; (void)sz; (void)cap; return 0; }
int array_init_copy(array_t *a, const array_t *s) { if (ND_BOOL()) return SQFS_ERROR_ALLOC; *a = *s; a->data = (void *)&arr_copies; arr_copies++; return 0; }
void array_cleanup(array_t *a) { (void)a; arr_cleanups++; }
int rbtree_init(rbtree_t *t, size_t ks, size_t vs, int (*cmp)(const void *, const void *, const void *)) { (void)t; (void)ks; (void)vs; (void)cmp; return 0; }
void rbtree_cleanup(rbtree_t *t) { (void)t; }
int rbtree_insert(rbtree_t *t, const void *k, const void *v) { (void)t; (void)k; (void)v; return 0; }
int rbtree_copy(const rbtree_t *tree, rbtree_t *out)
{
	memcpy(out, tree, sizeof(*out));
	if (ND_BOOL()) { memset(out, 0, sizeof(*out)); return SQFS_ERROR_ALLOC; }
	for (int i = 0; i < NB; ++i) COPY[i] = ORIG[i];	/* node contents are memcpy'd, including the keys' next pointers */
	out->root = NB ? &COPY[0].n : NULL;
	tree_copied = 1;
	return 0;
}
rbtree_node_t *rbtree_lookup(const rbtree_t *tree, const void *key)
{
	const kv_block_desc_t *k = key;
	VP_ASSERT(tree->root == (NB ? &COPY[0].n : NULL), "descriptors are looked up in the COPY's tree");
	for (int i = 0; i < NB; ++i)
		if (COPY[i].key.start == k->start && COPY[i].key.count == k->count)
			return &COPY[i].n;
	return NULL;
}

#include "lib/sqfs/src/xattr/xattr_writer.c"

static int in_copy(const kv_block_desc_t *d) { for (int i = 0; i < NB; ++i) if (d == &COPY[i].key) return 1; return 0; }

void harness(void)
{
	static sqfs_xattr_writer_t X;
	sqfs_xattr_writer_t *c;
	const kv_block_desc_t *it, *ot;
	int i;

	X.base.refcount = 1; X.base.destroy = xattr_writer_destroy; X.base.copy = xattr_writer_copy;
	X.kv_block_tree.key_context = &X;
	X.kv_block_tree.root = NB ? &ORIG[0].n : NULL;
	X.num_blocks = NB;
	for (i = 0; i < NB; ++i) {
		ORIG[i].key.start = 10 * (size_t)i; ORIG[i].key.count = 1 + (size_t)i;	/* distinct (start, count) = distinct keys */
		ORIG[i].key.start_ref = ND_U64(); ORIG[i].key.size_bytes = ND_SZ();
		ORIG[i].key.next = (i + 1 < NB) ? &ORIG[i + 1].key : NULL;
	}
	X.kv_block_first = NB ? &ORIG[0].key : NULL;
	X.kv_block_last = NB ? &ORIG[NB - 1].key : NULL;
	X.kv_pairs.data = (void *)&X; X.kv_pairs.size = sizeof(sqfs_u64);

	c = (sqfs_xattr_writer_t *)xattr_writer_copy((const sqfs_object_t *)&X);

	/* the original is never modified by being copied */
	for (i = 0; i < NB; ++i)
		VP_ASSERT(ORIG[i].key.next == ((i + 1 < NB) ? &ORIG[i + 1].key : NULL), "C19: copying leaves the original's block chain untouched");
	VP_ASSERT(X.kv_block_first == (NB ? &ORIG[0].key : NULL) && X.kv_block_last == (NB ? &ORIG[NB - 1].key : NULL), "original first/last untouched");
	if (c == NULL) {
		VP_ASSERT(str_cleanups == str_copies && arr_cleanups == arr_copies, "C13: a failed copy releases the containers it had duplicated");
		VP_REACH("copy_failed");
		return;
	}
	VP_ASSERT(c != &X && str_copies == 2 && arr_copies == 1 && tree_copied, "all containers duplicated");
	VP_ASSERT(c->kv_block_tree.key_context == c, "C19: the copy's tree orders its descriptors by the copy's own pair array");
	VP_ASSERT(c->num_blocks == NB, "block count copied");
	it = c->kv_block_first; ot = X.kv_block_first;
	for (i = 0; i < NB + 1; ++i) {
		if (it == NULL || ot == NULL) break;
		VP_ASSERT(in_copy(it), "C19: the copy's block chain runs through the copy's own descriptors (not the original's)");
		VP_ASSERT(it->start == ot->start && it->count == ot->count && it->start_ref == ot->start_ref && it->size_bytes == ot->size_bytes, "same blocks in the same order");
		if (it->next == NULL) VP_ASSERT(c->kv_block_last == it, "last pointer ends the copy's chain");
		it = it->next; ot = ot->next;
	}
	VP_ASSERT(it == NULL && ot == NULL && i == NB, "C19: both chains have the same length");
	if (NB == 0) VP_ASSERT(c->kv_block_first == NULL && c->kv_block_last == NULL, "empty chain");
	free(c);
	VP_REACH("copied");
}
