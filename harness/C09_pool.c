/*
 * C09: thread pool - induction over critical sections.
 *
 * The real lib/util/src/threadpool.c is #included (so its static functions
 * are reachable) with the pthread primitives mapped onto a sequential monitor
 * model.  One harness run = ONE atomic step (critical section) of one thread,
 * started from an ARBITRARY state satisfying the representation invariant
 * Inv (list shapes given by -DQN/-DDN/-DHN/-DSN/-DRN, all tickets, payload
 * pointers and the status word symbolic).  After the step Inv must hold
 * again, so the result composes to interleavings/histories of any length.
 *
 *   STEP 1  submit
 *   STEP 2  dequeue
 *   STEP 3  worker: [lock; get_next_work_item; unlock] then callback, then
 *           (from a *fresh* arbitrary Inv state, modelling any number of
 *           steps of other threads) [lock; store_completed;
 *           get_next_work_item; unlock]
 *   STEP 4  get_status
 *   STEP 5  destroy (join stub, every list freed exactly once)
 *   STEP 6  thread_pool_create (pthread_create stub with symbolic failure)
 *
 * Waiting: pthread_cond_wait ends the path (VP_ASSUME(0)) after asserting
 * (a) Inv (the mutex is released there), (b) the *progress predicate*: the
 * wait is only allowed when another thread can still make the awaited
 * condition true.  Resuming after a wake-up equals running the step again
 * from an arbitrary Inv state, which the same harness covers.
 */
#include "vp.h"
#include <pthread.h>
#include <signal.h>
#include <stdlib.h>
#include <string.h>

#ifndef QN
#define QN 1
#endif
#ifndef DN
#define DN 1
#endif
#ifndef HN
#define HN 1
#endif
#ifndef SN
#define SN 0
#endif
#ifndef RN
#define RN 1
#endif
#ifndef STEP
#define STEP 1
#endif
#define NW 2
#define MAXCELLS (QN + DN + HN + SN + RN + 3)

/* ---- sequential monitor model of pthreads ---- */
static int vp_locked;
static int vp_bcast_queue, vp_bcast_done;
static int vp_wait_reached;
static void vp_at_release(int at_wait, pthread_cond_t *c);

static int vp_mutex_lock(pthread_mutex_t *m)
{
	(void)m;
	VP_ASSERT(!vp_locked, "mutex is not locked recursively");
	vp_locked = 1;
	vp_bcast_queue = 0;
	vp_bcast_done = 0;
	return 0;
}

static int vp_mutex_unlock(pthread_mutex_t *m)
{
	(void)m;
	VP_ASSERT(vp_locked, "unlock only while holding the mutex");
	vp_at_release(0, NULL);
	vp_locked = 0;
	return 0;
}

static int vp_cond_wait(pthread_cond_t *c, pthread_mutex_t *m)
{
	(void)m;
	VP_ASSERT(vp_locked, "cond_wait only while holding the mutex");
	vp_wait_reached = 1;
	vp_at_release(1, c);
	/* path ends here: continuing == re-running the step from any Inv state */
	VP_REACH("wait");
	VP_ASSUME(0);
	return 0;
}

static int vp_cond_broadcast(pthread_cond_t *c);
static int vp_join_count;
static int vp_join(pthread_t t, void **r) { (void)t; (void)r; vp_join_count++; return 0; }
static int vp_nop_mtx(pthread_mutex_t *m) { (void)m; return 0; }
static int vp_nop_cond(pthread_cond_t *c) { (void)c; return 0; }
static int vp_sigmask(int how, const sigset_t *s, sigset_t *o) { (void)how; (void)s; (void)o; return 0; }
static int vp_sigfillset(sigset_t *s) { (void)s; return 0; }

static int vp_create_fail_at;
static int vp_created;
static void *vp_create_args[NW + 1];
static int vp_thread_create(pthread_t *t, const pthread_attr_t *a,
			    void *(*fn)(void *), void *arg)
{
	(void)a; (void)fn;
	if (vp_created == vp_create_fail_at)
		return 11;
	VP_ASSERT(vp_created < NW + 1, "no more threads than requested");
	vp_create_args[vp_created] = arg;
	*t = (pthread_t)(vp_created + 1);
	vp_created++;
	return 0;
}
static int vp_mutex_init(pthread_mutex_t *m, const pthread_mutexattr_t *a) { (void)m; (void)a; return ND_BOOL() ? 12 : 0; }
static int vp_cond_init(pthread_cond_t *c, const pthread_condattr_t *a) { (void)c; (void)a; return ND_BOOL() ? 12 : 0; }

#define pthread_mutex_lock vp_mutex_lock
#define pthread_mutex_unlock vp_mutex_unlock
#define pthread_cond_wait vp_cond_wait
#define pthread_cond_broadcast vp_cond_broadcast
#define pthread_join vp_join
#define pthread_mutex_destroy vp_nop_mtx
#define pthread_cond_destroy vp_nop_cond
#define pthread_mutex_init vp_mutex_init
#define pthread_cond_init vp_cond_init
#define pthread_create vp_thread_create
#define pthread_sigmask vp_sigmask
#undef sigfillset
#define sigfillset vp_sigfillset

#include "lib/util/src/threadpool.c"

/* ---- harness state ---- */
static thread_pool_impl_t *P;
static work_item_t *held[HN + 3];
static size_t n_held;

static int vp_cond_broadcast(pthread_cond_t *c)
{
	VP_ASSERT(vp_locked, "broadcast happens under the mutex");
	if (P == NULL) {
		vp_bcast_queue = 1;
		return 0;
	}
	if (c == &P->queue_cond)
		vp_bcast_queue = 1;
	if (c == &P->done_cond)
		vp_bcast_done = 1;
	return 0;
}

/* snapshot taken when the step starts (for signal-on-change) */
static int snap_queue_empty, snap_status;
static int vp_expect_done_bcast;

#define QMAX (QN + 1)
#define DMAX (DN + 1)
#define SMAX (SN + DN + 1)
#define RMAX (RN + 2)
static size_t list_len(work_item_t *l, int max)
{
	size_t n = 0;
	for (int i = 0; i < max; ++i) {
		if (l == NULL)
			break;
		++n;
		l = l->next;
	}
	VP_ASSERT(l == NULL, "list is acyclic and within the cell bound");
	return n;
}

/* the representation invariant; asserts when `chk`, returns truth value */
static void check_inv_(int at_release)
{
	size_t qn = list_len(P->queue, QMAX), dn = list_len(P->done, DMAX);
	size_t sn = list_len(P->safe_done, SMAX);
	work_item_t *it, *last;
	size_t t, i, j;

	/* queue: consecutive tickets ending at next_ticket-1, queue_last is tail */
	VP_ASSERT(P->next_ticket >= qn, "Inv: queue fits below next_ticket");
	t = P->next_ticket - qn;
	last = NULL;
	for (it = P->queue, i = 0; i < QMAX && it != NULL; ++i, it = it->next) {
		VP_ASSERT(it->ticket_number == t, "Inv: queue tickets are consecutive in submit order");
		++t;
		last = it;
	}
	VP_ASSERT(P->queue_last == last, "Inv: queue_last is the tail of the queue (NULL when empty)");

	/* safe_done: consecutive ending at next_dequeue_ticket-1 */
	VP_ASSERT(P->next_dequeue_ticket >= sn, "Inv: safe_done fits below next_dequeue_ticket");
	t = P->next_dequeue_ticket - sn;
	last = NULL;
	for (it = P->safe_done, i = 0; i < SMAX && it != NULL; ++i, it = it->next) {
		VP_ASSERT(it->ticket_number == t, "Inv: safe_done tickets are consecutive");
		++t;
		last = it;
	}
	VP_ASSERT(P->safe_done_last == last, "Inv: safe_done_last is the tail of safe_done");

	/* done: strictly ascending, within [next_dequeue_ticket, next_ticket-qn) */
	t = P->next_dequeue_ticket;
	for (it = P->done, i = 0; i < DMAX && it != NULL; ++i, it = it->next) {
		VP_ASSERT(it->ticket_number >= t, "Inv: done list is strictly sorted and not below next_dequeue_ticket");
		VP_ASSERT(it->ticket_number < P->next_ticket - qn, "Inv: done tickets are older than every queued ticket");
		t = it->ticket_number + 1;
	}

	/* held: distinct, in range, not in done */
	for (i = 0; i < n_held; ++i) {
		VP_ASSERT(held[i]->ticket_number >= P->next_dequeue_ticket &&
			  held[i]->ticket_number < P->next_ticket - qn,
			  "Inv: held ticket lies between dequeued and queued tickets");
		for (j = 0; j < i; ++j)
			VP_ASSERT(held[i]->ticket_number != held[j]->ticket_number, "Inv: held tickets distinct");
		for (it = P->done, j = 0; j < DMAX && it != NULL; ++j, it = it->next)
			VP_ASSERT(it->ticket_number != held[i]->ticket_number, "Inv: a ticket is either held or done");
	}

	/* exactly once: done+held fill [next_dequeue_ticket, next_ticket-qn) */
	VP_ASSERT(dn + n_held == (P->next_ticket - qn) - P->next_dequeue_ticket,
		  "Inv: every outstanding ticket is in exactly one place (exactly-once)");
	/* item_count is private to the submitting thread; dequeue updates it after
	   dropping the mutex, so inside a dequeue step it is checked at the end */
	if (!at_release || STEP != 2)
		VP_ASSERT(P->item_count == sn + dn + n_held + qn, "Inv: item_count counts the items in flight");

	/* recycled cells are blank (ticket 0 < every live ticket, so the ticket
	   ranges above already imply that all lists are pairwise disjoint) */
	VP_ASSERT(P->next_dequeue_ticket > sn, "Inv: live tickets are > 0");
	for (it = P->recycle, i = 0; i < RMAX && it != NULL; ++i, it = it->next) {
		VP_ASSERT(it->ticket_number == 0 && it->data == NULL, "Inv: recycled cells are blank");
	}
	(void)list_len(P->recycle, RMAX);
}

static work_item_t *cells_q[QN + 1], *cells_d[DN + 1], *cells_s[SN + 1], *cells_r[RN + 1];
static char vp_payload_objs[32];
static unsigned vp_payload_n;
static void *vp_payload(void) { return &vp_payload_objs[vp_payload_n++]; }

#if STEP != 5
static work_item_t cellpool[MAXCELLS + 4];
static size_t cellpool_used;
#endif
static work_item_t *new_cell(void)
{
#if STEP == 5
	work_item_t *c = malloc(sizeof(*c));
	VP_ASSUME(c != NULL);
#else
	work_item_t *c = &cellpool[cellpool_used++];
#endif
	c->next = NULL;
	c->ticket_number = 0;
	c->data = vp_payload();
	return c;
}

/*
 * Put the pool into an arbitrary Inv state of the given shape.  `mine`, if
 * not NULL, becomes one of the held cells (the calling worker's item).
 */
static void build_state(work_item_t *mine, size_t qn, size_t dn, size_t hn, size_t sn, size_t rn)
{
	size_t D = ND_U64(), i, j, t;
	work_item_t *prev;

	VP_ASSUME(D >= 4 && D < ((size_t)1 << 62));
	P->next_dequeue_ticket = D;
	P->next_ticket = D + dn + hn + qn;
	P->item_count = sn + dn + hn + qn;
	P->status = ND_I32();
	P->queue = P->queue_last = P->done = NULL;
	P->safe_done = P->safe_done_last = P->recycle = NULL;

	/* safe_done: D-sn .. D-1 */
	prev = NULL;
	for (i = 0; i < sn; ++i) {
		work_item_t *c = cells_s[i] = new_cell();
		c->ticket_number = D - sn + i;
		if (prev) prev->next = c; else P->safe_done = c;
		prev = c;
	}
	P->safe_done_last = prev;

	/* queue: top qn tickets */
	prev = NULL;
	for (i = 0; i < qn; ++i) {
		work_item_t *c = cells_q[i] = new_cell();
		c->ticket_number = D + dn + hn + i;
		if (prev) prev->next = c; else P->queue = c;
		prev = c;
	}
	P->queue_last = prev;

	/* done and held share [D, D+dn+hn): symbolic split */
	prev = NULL;
	for (i = 0; i < dn; ++i) {
		work_item_t *c = cells_d[i] = new_cell();
		t = ND_U64();
		VP_ASSUME(t >= D && t < D + dn + hn);
		VP_ASSUME(prev == NULL || t > prev->ticket_number);
		c->ticket_number = t;
		if (prev) prev->next = c; else P->done = c;
		prev = c;
	}
	n_held = hn;
	for (i = 0; i < hn; ++i) {
		work_item_t *c = (i == 0 && mine != NULL) ? mine : new_cell();
		held[i] = c;
		c->next = NULL;
		t = ND_U64();
		VP_ASSUME(t >= D && t < D + dn + hn);
		for (j = 0; j < i; ++j)
			VP_ASSUME(t != held[j]->ticket_number);
		for (j = 0; j < dn; ++j)
			VP_ASSUME(t != cells_d[j]->ticket_number);
		c->ticket_number = t;
	}

	prev = NULL;
	for (i = 0; i < rn; ++i) {
		work_item_t *c = cells_r[i] = new_cell();
		c->ticket_number = 0;
		c->data = NULL;
		c->next = prev;
		prev = c;
	}
	P->recycle = prev;

	snap_queue_empty = (P->queue == NULL);
	snap_status = P->status;
}

static int ticket_is_held(size_t t)
{
	for (size_t i = 0; i < n_held; ++i)
		if (held[i]->ticket_number == t)
			return 1;
	return 0;
}

static int ticket_in_queue(size_t t)
{
	size_t qn = list_len(P->queue, QMAX);
	return t >= P->next_ticket - qn && t < P->next_ticket;
}

/* called when the mutex is released (unlock or wait) */
static int cb_calls;
static work_item_t *expect_item;

static void vp_at_release(int at_wait, pthread_cond_t *c)
{
	if (P == NULL)
		return;	/* thread_pool_create failure path: pool not published */
#if STEP == 3 || STEP == 7
	/* bookkeeping of which cells the modelled worker holds */
	if (vp_expect_done_bcast && n_held > 0) {
		/* the worker was obliged to store held[0] (its item) */
		held[0] = held[n_held - 1];
		n_held--;
	}
	if (expect_item != NULL && P->queue != expect_item) {
		/* head of the queue was taken by this worker */
		held[n_held++] = expect_item;
	}
#endif
	check_inv_(1);

	/* signal-on-change */
	if (snap_queue_empty && P->queue != NULL)
		VP_ASSERT(vp_bcast_queue, "queue became non-empty => queue_cond is signalled before the mutex is released");
	if (vp_expect_done_bcast)
		VP_ASSERT(vp_bcast_done, "a completed item / status change is signalled on done_cond before the mutex is released");
#if STEP == 5
	VP_ASSERT(P->status != 0 && vp_bcast_queue, "destroy sets the status and wakes the workers under the mutex");
#endif

	if (!at_wait)
		return;

	if (c == &P->done_cond) {
		/* consumer waits for ticket next_dequeue_ticket */
		size_t t = P->next_dequeue_ticket;
		VP_ASSERT(P->item_count != 0, "dequeue never waits when nothing is in flight");
		VP_ASSERT(ticket_is_held(t) || (ticket_in_queue(t) && P->status == 0),
			  "dequeue waits only for a ticket that some worker holds or will still take "
			  "(never after a failure with the item still queued: that wait would never end)");
	} else {
		VP_ASSERT(c == &P->queue_cond, "workers wait on queue_cond");
		VP_ASSERT(P->queue == NULL && P->status == 0,
			  "a worker waits only when there is no work and no shutdown/failure");
	}
}

/* ---- worker callback ---- */
static int st_injected, st_before;
static size_t dn_before;

static int callback(void *user, void *data)
{
	(void)user;
	VP_ASSERT(!vp_locked, "the work callback runs outside the mutex");
	cb_calls++;
#if STEP == 3
	/* post-condition of [lock; get_next_work_item; unlock] from any Inv state */
	VP_ASSERT(expect_item != NULL && data == expect_item->data,
		  "worker takes the HEAD of the queue (FIFO hand-out)");
	VP_ASSERT(snap_status == 0, "no work is handed out after a failure/shutdown");
	VP_REACH("worker_took_item");
	VP_ASSUME(0);
#else
	if (cb_calls == 1) {
		/* (the first section ran on a trivial concrete state; STEP 3 covers it
		   from arbitrary states).  Other threads run now: fresh arbitrary Inv
		   state in which this worker's item is one of the held cells. */
		build_state(expect_item, QN, DN, HN, SN, RN);
		check_inv_(0);
		expect_item = P->queue;
		st_before = P->status;
		dn_before = DN;
		st_injected = ND_I32();
		vp_expect_done_bcast = 1;
		return st_injected;
	}
	/* second callback: Inv + signalling were checked at the release */
	VP_ASSERT(list_len(P->done, DMAX) == dn_before + 1, "completed item was added to the done list");
	VP_ASSERT(P->status == 0 && st_before == 0 && st_injected == 0,
		  "work is handed out only while no failure was reported");
	VP_ASSERT(expect_item != NULL && data == expect_item->data, "worker takes the head of the queue");
	VP_REACH("worker_stored_and_took_next");
	VP_ASSUME(0);
#endif
	return 0;
}

void harness(void)
{
	size_t old_next = 0, old_cnt, old_deq;
	int st, ret;
	void *ptr, *exp_ptr;
	work_item_t *first;

#if STEP == 5 || STEP == 6
	P = malloc(sizeof(*P) + NW * sizeof(worker_t));
	VP_ASSUME(P != NULL);
	memset(P, 0, sizeof(*P));
#else
	/* typed static object: CBMC encodes a malloc'ed flexible struct as a
	   byte array, which costs two orders of magnitude more */
	static thread_pool_impl_t PS;
	P = &PS;
#endif
	P->num_workers = NW;

#if STEP == 6
	{
		size_t want = ND_U64();
		thread_pool_t *tp;
		VP_ASSUME(want <= NW);
		vp_create_fail_at = ND_I32();
		free(P);
		P = NULL;
		tp = thread_pool_create(want, callback);
		if (tp == NULL) {
			VP_ASSERT(vp_join_count == vp_created, "partial creation failure joins exactly the started threads");
			VP_REACH("create_failed");
			return;
		}
		P = (thread_pool_impl_t *)tp;
		VP_ASSERT(P->num_workers == (want ? want : 1) && (size_t)vp_created == P->num_workers, "one thread per requested worker (at least one)");
		for (int i = 0; i < vp_created; ++i) {
			VP_ASSERT(vp_create_args[i] == &P->workers[i], "each thread gets its own worker context");
			VP_ASSERT(P->workers[i].pool == P && P->workers[i].fun == callback, "worker context initialised");
			for (int j = 0; j < i; ++j)
				VP_ASSERT(vp_create_args[i] != vp_create_args[j], "no two workers share a context");
		}
		VP_ASSERT(P->queue == NULL && P->done == NULL && P->status == 0 && P->item_count == 0 &&
			  P->next_ticket == P->next_dequeue_ticket, "fresh pool is an empty Inv state");
		VP_ASSERT(tp->submit == submit && tp->dequeue == dequeue && tp->get_status == get_status &&
			  tp->destroy == destroy, "interface filled in");
		VP_REACH("create_ok");
		free(P);
		return;
	}
#endif

#if STEP == 7
	build_state(NULL, 1, 0, 0, 0, 0);	/* trivial state for the first section */
	P->status = 0;
	snap_status = 0;
#else
	build_state(NULL, QN, DN, HN, SN, RN);
	check_inv_(0);	/* the builder really produces Inv states */
#endif
	old_next = P->next_ticket;
	old_cnt = P->item_count;
	old_deq = P->next_dequeue_ticket;
	st = P->status;

#if STEP == 1
	ptr = vp_payload();
	ret = submit((thread_pool_t *)P, ptr);
	VP_ASSERT(!vp_locked, "mutex released on return");
	VP_ASSERT(ret == st, "submit reports the pool status");
	n_held = HN;
	check_inv_(0);
	if (st == 0) {
		VP_ASSERT(P->queue_last != NULL && P->queue_last->data == ptr &&
			  P->queue_last->ticket_number == old_next && P->next_ticket == old_next + 1,
			  "submit appends the item with the next ticket (submit order == ticket order)");
		VP_ASSERT(P->item_count == old_cnt + 1, "item counted");
		VP_REACH("submit_ok");
	} else {
		VP_ASSERT(P->next_ticket == old_next && P->item_count == old_cnt, "failed submit changes nothing");
		VP_REACH("submit_refused");
	}
#elif STEP == 2
	first = P->safe_done ? P->safe_done : NULL;
	exp_ptr = NULL;
	if (first != NULL) {
		exp_ptr = first->data;
	} else if (P->done != NULL && P->done->ticket_number == old_deq) {
		exp_ptr = P->done->data;
		first = P->done;
	}
	ptr = dequeue((thread_pool_t *)P);
	VP_ASSERT(!vp_locked, "mutex released on return");
	check_inv_(0);
	if (old_cnt == 0) {
		VP_ASSERT(ptr == NULL, "nothing in flight => NULL");
		VP_REACH("dequeue_empty");
	} else if (first != NULL) {
		/* smallest outstanding ticket is available: it must be returned */
		VP_ASSERT(ptr == exp_ptr, "dequeue returns the item with the smallest outstanding ticket (FIFO)");
		VP_ASSERT(P->item_count == old_cnt - 1, "handed back exactly once");
		VP_ASSERT(P->recycle == first, "cell recycled");
		VP_REACH("dequeue_item");
	} else {
		/* did not wait (path would have ended) and had nothing to return */
		VP_ASSERT(ptr == NULL && P->status != 0 && P->item_count == old_cnt,
			  "without a finished item dequeue may only return (NULL) after a failure, leaving the state intact");
		VP_REACH("dequeue_after_failure");
	}
#elif STEP == 3 || STEP == 7
	{
		static worker_t wctx;
		worker_t *w = &wctx;
		w->pool = P;
		w->fun = callback;
		w->user = NULL;
		expect_item = P->queue;
		worker_proc(w);
		/* returned: only allowed on shutdown/failure */
		VP_ASSERT(!vp_locked, "mutex released on exit");
		VP_ASSERT(P->status != 0, "a worker thread exits only on failure/shutdown");
#if STEP == 7
		VP_ASSERT(cb_calls == 1 && list_len(P->done, DMAX) == dn_before + 1, "the held item was stored before exiting");
		VP_ASSERT(P->status == (st_before != 0 ? st_before : st_injected),
			  "failure status is sticky: the first non-zero status wins");
#endif
		check_inv_(0);
		VP_REACH("worker_exit");
	}
#elif STEP == 4
	ret = get_status((thread_pool_t *)P);
	VP_ASSERT(ret == st && !vp_locked, "get_status returns the status and releases the mutex");
	check_inv_(0);
	VP_REACH("status");
#elif STEP == 5
	n_held = 0; /* joined workers have stored their items: use HN=0 shapes */
	destroy((thread_pool_t *)P);
	VP_ASSERT(vp_join_count == NW, "every worker is joined");
	VP_ASSERT(!vp_locked, "mutex released");
	P = NULL;
	VP_REACH("destroyed");
#endif
	(void)old_next; (void)old_cnt; (void)old_deq; (void)st; (void)ret; (void)ptr; (void)exp_ptr; (void)first;
}
