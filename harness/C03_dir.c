/*
 * C03 O-1/O-2 (+ C01 directory layer, writer side): on-disk invariants of
 * directory listings produced by the real directory writer.
 * real code: lib/sqfs/src/dir_writer.c (#included), lib/util/src/alloc.c,
 *            lib/util/src/array.c
 * env: recording metadata-writer stub with a position model (symbolic start
 *      offset inside a metadata block of scaled size, block address advances
 *      by a symbolic amount at every block boundary).
 * The byte log is decoded by an independent parser written from
 * doc/format.adoc.
 */
#ifndef NE
#define NE 2
#endif
#ifndef NL
#define NL 2	/* max name length */
#endif
#ifndef L0
#define L0 1
#endif
#ifndef L1
#define L1 1
#endif
#ifndef L2
#define L2 1
#endif
#ifndef L3
#define L3 1
#endif
#include "vp.h"
#include "sqfs/meta_writer.h"
#include "sqfs/block.h"
#include "sqfs/error.h"
#include <sys/stat.h>

#define LOGSZ (NE * (12 + 8 + NL) + 4)
static unsigned char mlog[LOGSZ];
static size_t mlog_n;
static sqfs_u64 pos_block;
static sqfs_u32 pos_off;
/* per log byte: position at which it was written */
static sqfs_u64 at_block[LOGSZ];
static sqfs_u32 at_off[LOGSZ];
struct sqfs_meta_writer_t { sqfs_object_t base; int dummy; };
static struct sqfs_meta_writer_t DM;

int sqfs_meta_writer_append(sqfs_meta_writer_t *m, const void *data, size_t size)
{
	(void)m;
	VP_ASSERT(mlog_n + size <= LOGSZ, "harness log large enough");
	for (size_t i = 0; i < 12 + NL; ++i) {
		if (i < size) {
			mlog[mlog_n] = ((const unsigned char *)data)[i];
			at_block[mlog_n] = pos_block;
			at_off[mlog_n] = pos_off;
			mlog_n++;
			pos_off++;
			if (pos_off == SQFS_META_BLOCK_SIZE) {
				sqfs_u32 step = ND_U32();
				VP_ASSUME(step >= 3 && step <= SQFS_META_BLOCK_SIZE + 2);
				pos_block += step;
				pos_off = 0;
			}
		}
	}
	VP_ASSERT(size <= 12 + NL, "harness copy loop covers the append");
	return 0;
}
void sqfs_meta_writer_get_position(const sqfs_meta_writer_t *m, sqfs_u64 *b, sqfs_u32 *o)
{
	(void)m;
	*b = pos_block;
	*o = pos_off;
}

#include "lib/sqfs/src/dir_writer.c"

static sqfs_dir_writer_t DW;
static sqfs_u16 rd16(size_t p) { return mlog[p] | (mlog[p + 1] << 8); }
static sqfs_u32 rd32(size_t p) { return rd16(p) | ((sqfs_u32)rd16(p + 2) << 16); }

void harness(void)
{
	char name[NE][NL + 1];
	sqfs_u32 inum[NE];
	sqfs_u64 iref[NE];
	sqfs_u16 mode[NE];
	size_t nlen[NE];
	static const sqfs_u16 types[7] = { S_IFSOCK, S_IFIFO, S_IFLNK, S_IFBLK, S_IFCHR, S_IFDIR, S_IFREG };
	size_t p, e, hdrs = 0;
	sqfs_u64 start_ref;
	int ret;

	DW.dm = &DM;
	pos_block = ND_U64();
	VP_ASSUME(pos_block < ((sqfs_u64)1 << 40));
	pos_off = ND_U32();
	VP_ASSUME(pos_off < SQFS_META_BLOCK_SIZE);

	ret = sqfs_dir_writer_begin(&DW, 0);
	VP_ASSERT(ret == 0, "begin");
	start_ref = sqfs_dir_writer_get_dir_reference(&DW);
	VP_ASSERT(start_ref == ((pos_block << 16) | pos_off), "directory reference is the position of the listing");

	for (e = 0; e < NE; ++e) {
		unsigned t = ND_U32();
		/* name lengths are part of the shape (concrete), name bytes symbolic */
		static const size_t shape_len[4] = { L0, L1, L2, L3 };
		nlen[e] = shape_len[e];
		for (size_t i = 0; i < NL; ++i) {
			name[e][i] = (char)ND_U8();
			if (i < nlen[e])
				VP_ASSUME(name[e][i] != 0);
			else
				name[e][i] = 0;
		}
		name[e][NL] = 0;
		inum[e] = ND_U32();
		VP_ASSUME(inum[e] >= 1);
		iref[e] = ND_U64();
		VP_ASSUME(iref[e] < ((sqfs_u64)1 << 48));
		VP_ASSUME(t < 7);
		mode[e] = types[t] | (ND_U16() & 07777);
		ret = sqfs_dir_writer_add_entry(&DW, name[e], inum[e], iref[e], mode[e]);
		VP_ASSERT(ret == 0, "add_entry accepts a valid entry");
	}
	ret = sqfs_dir_writer_end(&DW);
	VP_ASSERT(ret == 0, "end");
	VP_ASSERT(sqfs_dir_writer_get_size(&DW) == mlog_n, "dir_size counts exactly the bytes of the listing");
	VP_ASSERT(sqfs_dir_writer_get_entry_count(&DW) == NE, "entry count");

	/* ---- independent decode of the listing ---- */
	p = 0;
	e = 0;
	{
		index_ent_t *ix = DW.idx;
		for (size_t h = 0; h < NE; ++h) {
			sqfs_u32 cnt, sblk, base;
			size_t run_bytes, hdr_pos;
			if (e >= NE)
				break;
			VP_ASSERT(p + 12 <= mlog_n, "header inside the listing");
			hdr_pos = p;
			cnt = rd32(p) + 1;
			sblk = rd32(p + 4);
			base = rd32(p + 8);
			p += 12;
			hdrs++;
			VP_ASSERT(cnt >= 1 && cnt <= 256, "C03: a directory header covers 1..256 entries");
			VP_ASSERT(e + cnt <= NE, "header count does not exceed the entries present");
			/* index entry for this header */
			VP_ASSERT(ix != NULL && ix->index == hdr_pos && ix->block == at_block[hdr_pos] && ix->ent != NULL,
				  "C03: one index entry per header, pointing at the header");
			if (ix != NULL)
				ix = ix->next;
			run_bytes = 12;
			for (sqfs_u32 k = 0; k < NE; ++k) {
				if (k < cnt && e < NE) {
					sqfs_u16 off = rd16(p), typ = rd16(p + 4), sz = rd16(p + 6);
					short diff = (short)rd16(p + 2);
					VP_ASSERT(sblk == (sqfs_u32)(iref[e] >> 16), "C03: all entries of a header share its inode metadata block");
					VP_ASSERT(off == (iref[e] & 0xFFFF), "entry offset is the inode's offset in that block");
					VP_ASSERT((sqfs_u32)(base + (sqfs_u32)(int)diff) == inum[e], "C03: header inode number + 16 bit delta gives the entry's inode number");
					VP_ASSERT(typ == (sqfs_u16)get_type(mode[e]), "entry type is the basic inode type of the mode");
					VP_ASSERT((size_t)sz + 1 == nlen[e], "stored name length");
					for (size_t i = 0; i < NL; ++i)
						if (i < nlen[e])
							VP_ASSERT(mlog[p + 8 + i] == (unsigned char)name[e][i], "entry name bytes");
					p += 8 + nlen[e];
					run_bytes += 8 + nlen[e];
					e++;
				}
			}
			/* doc/format.adoc: a new header is started whenever the entry list
			   crosses a metadata block boundary (this is what makes the directory
			   index useful): measured from the end of the header, the entries of
			   one run stay inside one metadata block unless the run is a single
			   entry */
			VP_ASSERT(cnt == 1 || (((at_off[hdr_pos] + 12) % SQFS_META_BLOCK_SIZE) + (run_bytes - 12) <= SQFS_META_BLOCK_SIZE),
				  "C03: the entries of a multi-entry header do not cross a metadata block boundary");
		}
		VP_ASSERT(ix == NULL, "no surplus index entries");
	}
	VP_ASSERT(e == NE && p == mlog_n, "the listing decodes to exactly the entries added, in order");
	if (hdrs > 1)
		VP_REACH("several_headers");
	if (hdrs == 1 && NE > 1)
		VP_REACH("one_header");

	/* ---- directory inode ---- */
	{
		sqfs_u32 xattr = ND_BOOL() ? 0xFFFFFFFF : ND_U32();
		sqfs_u32 parent = ND_U32();
		size_t hl = ND_SZ();
		sqfs_inode_generic_t *ino;
		VP_ASSUME(hl <= 3);
		ino = sqfs_dir_writer_create_inode(&DW, hl, xattr, parent);
		VP_ASSUME(ino != NULL);
		if (ino->base.type == SQFS_INODE_DIR) {
			VP_ASSERT(xattr == 0xFFFFFFFF && (start_ref >> 16) <= 0xFFFFFFFFu && mlog_n + 3 <= 0xFFFF && NE < 256,
				  "C03: basic directory inode only when everything fits (no xattr, 32 bit block, 16 bit size, < 256 entries)");
			VP_ASSERT(ino->data.dir.size == mlog_n + 3 && ino->data.dir.start_block == (start_ref >> 16) &&
				  ino->data.dir.offset == (start_ref & 0xFFFF) && ino->data.dir.nlink == NE + hl + 2 &&
				  ino->data.dir.parent_inode == parent, "basic directory inode fields");
			VP_REACH("basic_dir_inode");
		} else {
			VP_ASSERT(ino->base.type == SQFS_INODE_EXT_DIR, "directory inode type");
			VP_ASSERT(ino->data.dir_ext.size == mlog_n + 3 && ino->data.dir_ext.start_block == (sqfs_u32)(start_ref >> 16) &&
				  ino->data.dir_ext.offset == (start_ref & 0xFFFF) && ino->data.dir_ext.nlink == NE + hl + 2 &&
				  ino->data.dir_ext.parent_inode == parent && ino->data.dir_ext.xattr_idx == xattr, "extended directory inode fields");
			VP_ASSERT(ino->data.dir_ext.inodex_count == hdrs, "C03: one directory index entry per header");
			VP_ASSERT(ino->payload_bytes_used <= ino->payload_bytes_available, "index payload fits");
			VP_REACH("ext_dir_inode");
		}
	}
}
