/*
 * C01 / C13: sqfs_serialize_fstree() / serialize_tree_node()
 * (lib/common/src/writer/serialize_fstree.c, #included) on one tree node of
 * symbolic kind (KIND: 1 directory with 0..1 child, 2 regular file, 3 symlink,
 * 4 device, 5 fifo/socket) with symbolic metadata, real inode.c underneath,
 * and a fault injected at every step (directory writer, id table, inode
 * writer, the two flushes, the final copy).
 *
 * C01: the inode handed to the inode writer carries exactly the node's mode,
 *      time stamp, inode number, owner indices, link count and xattr index;
 *      an inode without xattrs / extra links is stored in its basic form;
 *      directory entries name the hard link TARGET's inode.
 * C13: any failing step makes the function fail with a diagnostic, nothing
 *      is written after the failure, and the inode object is released on every
 *      path (memory-leak check).
 */
#include "vp.h"
#include <stdlib.h>
#include <string.h>
#include <stdio.h>
#include <sys/stat.h>
#include "common.h"
#include "simple_writer.h"

static int step, failed_at, diag;
static int stepf(void)
{
	VP_ASSERT(failed_at == 0, "C13: no further step runs after a failed one");
	step++;
	if (ND_BOOL()) { failed_at = step; return 1; }
	return 0;
}
void sqfs_perror(const char *f, const char *a, int c) { (void)f; (void)a; (void)c; diag++; }
#define perror(s) ((void)(diag++))

/* directory writer */
static int dw_begun, dw_ended, dw_entries;
static sqfs_u32 ent_inum; static sqfs_u64 ent_ref; static sqfs_u16 ent_mode; static const char *ent_name;
static sqfs_u32 ci_xattr, ci_parent;
static int dir_is_ext;
int sqfs_dir_writer_begin(sqfs_dir_writer_t *w, sqfs_u32 fl) { (void)w; (void)fl; if (stepf()) return SQFS_ERROR_IO; dw_begun++; return 0; }
int sqfs_dir_writer_add_entry(sqfs_dir_writer_t *w, const char *name, sqfs_u32 inum, sqfs_u64 ref, sqfs_u16 mode)
{
	(void)w;
	if (stepf()) return SQFS_ERROR_ALLOC;
	dw_entries++; ent_name = name; ent_inum = inum; ent_ref = ref; ent_mode = mode;
	return 0;
}
int sqfs_dir_writer_end(sqfs_dir_writer_t *w) { (void)w; if (stepf()) return SQFS_ERROR_IO; dw_ended++; return 0; }
sqfs_inode_generic_t *sqfs_dir_writer_create_inode(const sqfs_dir_writer_t *w, size_t hl, sqfs_u32 xattr, sqfs_u32 parent)
{
	sqfs_inode_generic_t *ino;
	(void)w; (void)hl;
	if (stepf()) return NULL;
	ino = calloc(1, sizeof(*ino));
	if (ino == NULL) return NULL;
	ci_xattr = xattr; ci_parent = parent;
	/* what the real one guarantees: extended iff an xattr index is given or the listing is large */
	dir_is_ext = (xattr != 0xFFFFFFFF) || ND_BOOL();
	if (dir_is_ext) {
		ino->base.type = SQFS_INODE_EXT_DIR; ino->data.dir_ext.xattr_idx = xattr; ino->data.dir_ext.parent_inode = parent;
		ino->data.dir_ext.size = ND_U32();
	} else {
		ino->base.type = SQFS_INODE_DIR; ino->data.dir.parent_inode = parent; ino->data.dir.size = ND_U16();
	}
	return ino;
}
/* id table */
static sqfs_u32 id_asked[2]; static sqfs_u16 id_given[2]; static int id_calls;
int sqfs_id_table_id_to_index(sqfs_id_table_t *t, sqfs_u32 id, sqfs_u16 *out)
{
	(void)t;
	if (stepf()) return SQFS_ERROR_OVERFLOW;
	VP_ASSERT(id_calls < 2, "two owner ids per inode");
	id_asked[id_calls & 1] = id; id_given[id_calls & 1] = *out = ND_U16(); id_calls++;
	return 0;
}
/* inode writer */
static sqfs_u64 pos_block; static sqfs_u32 pos_off;
static int written, flushes, copied;
static struct { sqfs_inode_generic_t i; unsigned char pay[8]; } CAP;
struct sqfs_meta_writer_t { sqfs_object_t base; int which; };
static struct sqfs_meta_writer_t IM = { .which = 1 }, DM = { .which = 2 };
void sqfs_meta_writer_get_position(const sqfs_meta_writer_t *m, sqfs_u64 *b, sqfs_u32 *o) { VP_ASSERT(m == &IM, "inode position comes from the inode writer"); *b = pos_block; *o = pos_off; }
int sqfs_meta_writer_write_inode(sqfs_meta_writer_t *m, const sqfs_inode_generic_t *n)
{
	VP_ASSERT(m == &IM, "inodes go to the inode writer");
	if (stepf()) return SQFS_ERROR_IO;
	CAP.i = *n;
	for (size_t k = 0; k < sizeof(CAP.pay); ++k)
		if (k < n->payload_bytes_used || (k < 2 && (n->base.type == SQFS_INODE_SLINK || n->base.type == SQFS_INODE_EXT_SLINK)))
			CAP.pay[k] = ((const unsigned char *)n->extra)[k];
	written++;
	return 0;
}
int sqfs_meta_writer_flush(sqfs_meta_writer_t *m) { VP_ASSERT(flushes == 0 ? m == &IM : m == &DM, "inode table flushed first, then the directory table"); if (stepf()) return SQFS_ERROR_IO; flushes++; return 0; }
int sqfs_meta_write_write_to_file(sqfs_meta_writer_t *m) { VP_ASSERT(m == &DM, "the directory table is the one kept in memory"); if (stepf()) return SQFS_ERROR_IO; copied++; return 0; }
static sqfs_u64 fsize;
static sqfs_u64 get_size_stub(const sqfs_file_t *f) { (void)f; return fsize; }

#include "lib/common/src/writer/serialize_fstree.c"

#ifndef KIND
#define KIND 1
#endif
static struct { tree_node_t n; char pay[4]; } NODE, CHILD, TARGET;
static tree_node_t *inodes[1];
static sqfs_file_t OUTF;
static sqfs_writer_t W;

void harness(void)
{
	tree_node_t *n = &NODE.n;
	sqfs_inode_generic_t *fi = NULL;
	sqfs_u32 x = 0;
	int ret;

	n->xattr_idx = ND_U32(); n->uid = ND_U32(); n->gid = ND_U32(); n->inode_num = ND_U32(); n->mod_time = ND_U32();
	n->link_count = ND_U32(); n->name = (char *)n->payload;
#ifdef PERM
	/* the serialiser dispatches on the type bits of the mode: with symbolic
	   permission bits symex cannot prune the other kinds' branches, which
	   reinterpret this node's union (pointer <-> integer) and blow up.  The
	   directory / file / symlink obligations therefore use one constant
	   permission pattern; the device and ipc obligations keep all 4096
	   permission values symbolic through the same assignment. */
	n->mode = PERM;
#else
	n->mode = ND_U16() & 07777;
#endif
	pos_block = ND_U32(); pos_off = ND_U16() & 0x1FFF; fsize = ND_U32();
#if KIND == 1
	n->mode |= S_IFDIR;
	if (ND_BOOL()) {
		tree_node_t *c = &CHILD.n;
		c->name = (char *)c->payload; CHILD.pay[0] = 'c';
		c->parent = n; c->inode_num = ND_U32(); c->inode_ref = ND_U64(); c->mode = ND_U16();
		if (ND_BOOL()) {
			c->mode = S_IFLNK | 0777; c->flags = FLAG_LINK_IS_HARD; c->data.target_node = &TARGET.n;
			TARGET.n.inode_num = ND_U32(); TARGET.n.inode_ref = ND_U64(); TARGET.n.mode = ND_U16();
		}
		n->data.children = c;
	}
	if (ND_BOOL()) { n->parent = &TARGET.n; TARGET.n.inode_num = ND_U32(); }
#elif KIND == 2
	n->mode |= S_IFREG;
	VP_ASSUME(n->link_count >= 1);	/* fstree_post_process: every file node has at least its own link */
	fi = calloc(1, sizeof(*fi));
	VP_ASSUME(fi != NULL);
	if (ND_BOOL()) {
		fi->base.type = SQFS_INODE_FILE; fi->data.file.blocks_start = ND_U32(); fi->data.file.file_size = ND_U32();
		fi->data.file.fragment_index = ND_U32(); fi->data.file.fragment_offset = ND_U32();
	} else {
		/* what the block processor produces for large files / sparse files */
		fi->base.type = SQFS_INODE_EXT_FILE; fi->data.file_ext.blocks_start = ND_U64(); fi->data.file_ext.file_size = ND_U64();
		fi->data.file_ext.sparse = ND_U64(); fi->data.file_ext.fragment_idx = ND_U32(); fi->data.file_ext.fragment_offset = ND_U32();
		fi->data.file_ext.xattr_idx = 0xFFFFFFFF; fi->data.file_ext.nlink = 1;
	}
	n->data.file.inode = fi;
#elif KIND == 3
	n->mode |= S_IFLNK; n->data.target = (char *)n->payload; NODE.pay[0] = 't'; NODE.pay[1] = 'g';
#elif KIND == 4
	n->mode |= ND_BOOL() ? S_IFBLK : S_IFCHR; n->data.devno = ND_U32();
#else
	n->mode |= ND_BOOL() ? S_IFIFO : S_IFSOCK;
#endif
	inodes[0] = n;
	W.fs.unique_inode_count = 1; W.fs.inodes = inodes; W.fs.root = n;
	W.im = &IM; W.dm = &DM; OUTF.get_size = get_size_stub; W.outfile = &OUTF;

	ret = sqfs_serialize_fstree("out", &W);

	VP_ASSERT((ret == 0) == (failed_at == 0), "C13: serialising the tree succeeds iff every step succeeded");
	if (ret != 0) {
		VP_ASSERT(diag >= 1, "C13: a failing step prints a diagnostic");
		VP_REACH("failure");
		return;
	}
	VP_ASSERT(written == 1 && flushes == 2 && copied == 1, "inode written, both tables flushed, directory table copied out");
	VP_ASSERT(W.super.inode_table_start == fsize && W.super.directory_table_start == fsize, "table starts are taken from the file size");
	VP_ASSERT(n->inode_ref == (((sqfs_u64)pos_block << 16) | pos_off) && W.super.root_inode_ref == n->inode_ref, "C11: the inode reference is the writer position BEFORE the inode is written");
	VP_ASSERT(CAP.i.base.mode == n->mode && CAP.i.base.mod_time == n->mod_time && CAP.i.base.inode_number == n->inode_num,
		  "C01: mode, time stamp and inode number of the node reach the stored inode unchanged");
	VP_ASSERT(id_calls == 2 && id_asked[0] == n->uid && id_asked[1] == n->gid && CAP.i.base.uid_idx == id_given[0] && CAP.i.base.gid_idx == id_given[1],
		  "C01: owner and group are looked up separately, in that order, and stored in their own fields");
	VP_ASSERT(sqfs_inode_get_xattr_index(&CAP.i, &x) == 0 && x == n->xattr_idx, "C01: the stored inode announces exactly the node's xattr set (or none)");
#if KIND == 1
	VP_ASSERT(dw_begun == 1 && dw_ended == 1 && dw_entries == (n->data.children ? 1 : 0), "directory listing written");
	VP_ASSERT(ci_xattr == n->xattr_idx && ci_parent == (n->parent ? n->parent->inode_num : 0), "directory inode gets xattr index and parent inode number");
	if (n->data.children) {
		tree_node_t *t = (CHILD.n.flags & FLAG_LINK_IS_HARD) ? &TARGET.n : &CHILD.n;
		VP_ASSERT(ent_name == CHILD.n.name && ent_inum == t->inode_num && ent_ref == t->inode_ref && ent_mode == t->mode,
			  "C07: a hard link entry carries its own name and the TARGET's inode number, reference and type");
	}
	VP_ASSERT((CAP.i.base.type == SQFS_INODE_DIR ? CAP.i.data.dir.nlink : CAP.i.data.dir_ext.nlink) == n->link_count, "C01: directory link count");
	VP_ASSERT(CAP.i.base.type == (dir_is_ext ? SQFS_INODE_EXT_DIR : SQFS_INODE_DIR), "directory inode form is the directory writer's choice");
#elif KIND == 2
	VP_ASSERT(n->data.file.inode == NULL, "the file inode is handed over (and released) exactly once");
	{
		sqfs_u64 sz = 0; sqfs_u32 nl = (CAP.i.base.type == SQFS_INODE_FILE) ? 1 : CAP.i.data.file_ext.nlink;
		VP_ASSERT(CAP.i.base.type == SQFS_INODE_FILE || CAP.i.base.type == SQFS_INODE_EXT_FILE, "file inode");
		VP_ASSERT(nl == n->link_count, "C01: file link count (a basic file inode means exactly one link)");
		sqfs_inode_get_file_size(&CAP.i, &sz);
		(void)sz;
	}
#elif KIND == 3
	VP_ASSERT((CAP.i.base.type == SQFS_INODE_SLINK || CAP.i.base.type == SQFS_INODE_EXT_SLINK) && CAP.i.data.slink.target_size == 2 &&
		  CAP.pay[0] == 't' && CAP.pay[1] == 'g' && CAP.i.data.slink.nlink == n->link_count, "C01: symlink target and link count");
	VP_ASSERT((CAP.i.base.type == SQFS_INODE_SLINK) == (n->xattr_idx == 0xFFFFFFFF), "basic form iff no xattr");
#elif KIND == 4
	VP_ASSERT((S_ISBLK(n->mode) ? (CAP.i.base.type == SQFS_INODE_BDEV || CAP.i.base.type == SQFS_INODE_EXT_BDEV) : (CAP.i.base.type == SQFS_INODE_CDEV || CAP.i.base.type == SQFS_INODE_EXT_CDEV)) &&
		  CAP.i.data.dev.devno == n->data.devno && CAP.i.data.dev.nlink == n->link_count, "C01: device number and link count");
	VP_ASSERT((CAP.i.base.type == SQFS_INODE_BDEV || CAP.i.base.type == SQFS_INODE_CDEV) == (n->xattr_idx == 0xFFFFFFFF), "basic form iff no xattr");
#else
	VP_ASSERT((S_ISFIFO(n->mode) ? (CAP.i.base.type == SQFS_INODE_FIFO || CAP.i.base.type == SQFS_INODE_EXT_FIFO) : (CAP.i.base.type == SQFS_INODE_SOCKET || CAP.i.base.type == SQFS_INODE_EXT_SOCKET)) &&
		  CAP.i.data.ipc.nlink == n->link_count, "C01: link count");
	VP_ASSERT((CAP.i.base.type == SQFS_INODE_FIFO || CAP.i.base.type == SQFS_INODE_SOCKET) == (n->xattr_idx == 0xFFFFFFFF), "basic form iff no xattr");
#endif
	VP_REACH("success");
}
