/*
 * C08 O-1: block writer deduplication is byte-exact - inductive step.
 *
 * real code: lib/sqfs/src/block_writer.c (#included: static functions and the
 *            writer object layout), lib/util/src/file_cmp.c,
 *            lib/util/src/array.c
 * env: memfile (global byte array), no compressor involved at this layer.
 *
 * Pre-state: an ARBITRARY history of H recorded blocks satisfying the
 * writer's invariant I_bw (offsets contiguous, recorded size >= 1, the file
 * ends at the end of the last block, file_start <= used) with ARBITRARY bytes
 * on disk and ARBITRARY checksums (every checksum collision pattern is
 * covered: checksums are unconstrained symbols, not a function of the data).
 * Step: the NB blocks of one new file go through write_data_block().
 * Post: (a) the bytes at the returned location are the new file's bytes,
 * (b) no earlier byte changed and the file never shrinks below its old size,
 * (c) I_bw holds again (=> composes to histories of any length),
 * (d) DONT_DEDUPLICATE keeps the file's own location,
 * (f) a byte-identical earlier run with identical size words and checksums
 *     is shared (MODE 2).
 */
#ifndef H
#define H 2
#endif
#ifndef NB
#define NB 1
#endif
#ifndef SZ
#define SZ 2	/* max bytes per block */
#endif
#ifndef MODE
#define MODE 1
#endif
#define VP_IMG (3 + (H + NB) * SZ + 1)
#define VP_MAXIO (NB * SZ)
#include "vp_sqfs_stubs.h"
#include "sqfs/block.h"
#include "lib/sqfs/src/block_writer.c"

static struct { block_writer_default_t w; sqfs_u8 pad[SCRATCH_SIZE]; } WR;
static blk_info_t BLK[H + NB + 2];
static unsigned char old_img[VP_IMG];

static sqfs_u32 rec_size(const blk_info_t *b) { return SIZE_FROM_HASH(b->hash); }

static void check_Ibw(block_writer_default_t *wr, sqfs_u64 base)
{
	sqfs_u64 end = base;
	VP_ASSERT(wr->blocks.used <= H + NB, "I_bw: number of recorded blocks within the bound");
	for (size_t k = 0; k < H + NB; ++k) {
		if (k < wr->blocks.used) {
			VP_ASSERT(BLK[k].offset == end, "I_bw: recorded blocks are contiguous on disk");
			VP_ASSERT(rec_size(&BLK[k]) >= 1, "I_bw: recorded blocks are non-empty");
			end += rec_size(&BLK[k]);
		}
	}
	VP_ASSERT(vp_img_size == end, "I_bw: the file ends exactly at the end of the last recorded block");
}

void harness(void)
{
	sqfs_file_t *f = vp_file_init();
	block_writer_default_t *wr = &WR.w;
	sqfs_u64 base = ND_U64(), end, old_size, loc = 0, expect_own;
	unsigned char data[NB][SZ];
	sqfs_u32 size[NB], cks[NB], flags[NB];
	unsigned char cat[NB * SZ];
	size_t total = 0, i, k;
	int ret = 0;

	/* ---- arbitrary pre-state satisfying I_bw ---- */
	VP_ASSUME(base <= 3);
	for (i = 0; i < VP_IMG; ++i)
		vp_img[i] = ND_U8();
	end = base;
	for (k = 0; k < H; ++k) {
		sqfs_u32 s = ND_U32(), c = ND_U32(), word;
		VP_ASSUME(s >= 1 && s <= SZ);
		word = s | (ND_BOOL() ? (1u << 24) : 0);
		BLK[k].offset = end;
		BLK[k].hash = MK_BLK_HASH(c, word);
		end += s;
	}
	vp_img_size = end;
	old_size = end;
	for (i = 0; i < VP_IMG; ++i)
		old_img[i] = vp_img[i];

	wr->base.base.refcount = 1;
	wr->base.write_data_block = write_data_block;
	wr->base.get_block_count = get_block_count;
	wr->file = f;
	wr->flags = 0;	/* tools never pass HASH_COMPARE_ONLY (C08 O-4) */
	wr->blocks.size = sizeof(blk_info_t);
	wr->blocks.count = H + NB + 2;	/* capacity: no realloc in this step */
	wr->blocks.used = H;
	wr->blocks.data = BLK;
	wr->file_start = ND_U64();
	VP_ASSUME(wr->file_start <= H);
	check_Ibw(wr, base);

	/* ---- the new file ---- */
	for (k = 0; k < NB; ++k) {
		size[k] = ND_U32();
		VP_ASSUME(size[k] >= 1 && size[k] <= SZ);
		cks[k] = ND_U32();
		flags[k] = (ND_BOOL() ? SQFS_BLK_IS_COMPRESSED : 0) | (ND_BOOL() ? SQFS_BLK_IS_SPARSE : 0);
		if (k == 0)
			flags[k] |= SQFS_BLK_FIRST_BLOCK;
		if (k == NB - 1)
			flags[k] |= SQFS_BLK_LAST_BLOCK | (ND_BOOL() ? SQFS_BLK_DONT_DEDUPLICATE : 0);
		for (i = 0; i < SZ; ++i)
			data[k][i] = ND_U8();
		if (!(flags[k] & SQFS_BLK_IS_SPARSE)) {
			for (i = 0; i < SZ; ++i)
				if (i < size[k])
					cat[total + i] = data[k][i];
			total += size[k];
		}
	}
#if MODE == 2
	/* the new file is byte-identical to the run starting at history block 0,
	   with identical size words and checksums */
	VP_ASSUME(H >= NB);
	for (k = 0; k < NB; ++k) {
		sqfs_u32 word = size[k] | ((flags[k] & SQFS_BLK_IS_COMPRESSED) ? 0 : (1u << 24));
		VP_ASSUME(!(flags[k] & SQFS_BLK_IS_SPARSE));
		VP_ASSUME(BLK[k].hash == MK_BLK_HASH(cks[k], word));
	}
	for (i = 0; i < NB * SZ; ++i)
		if (i < total)
			VP_ASSUME(old_img[base + i] == cat[i]);
	VP_ASSUME(!(flags[NB - 1] & SQFS_BLK_DONT_DEDUPLICATE));
#endif

	expect_own = old_size;
#if MODE == 3
	/* C13 O-2: every file operation (write, read-back for comparison,
	   truncate) may fail: the failure must surface as an error return */
	vp_io_may_fail = 1;
	for (k = 0; k < NB; ++k) {
		ret = write_data_block(&wr->base, NULL, size[k], cks[k], flags[k], data[k], &loc);
		if (ret != 0)
			break;
	}
	VP_ASSERT((ret != 0) == (vp_io_failed != 0), "C13: the block writer fails exactly when a file operation failed (no swallowed I/O error)");
	if (ret != 0)
		VP_REACH("io_error_reported");
	else
		VP_REACH("stored");
	return;
#endif
	for (k = 0; k < NB; ++k) {
		ret = write_data_block(&wr->base, NULL, size[k], cks[k], flags[k] & ~SQFS_BLK_FIRST_BLOCK | (k == 0 ? SQFS_BLK_FIRST_BLOCK : 0),
				       data[k], &loc);
		VP_ASSERT(ret == 0, "no I/O error injected => write_data_block succeeds");
	}

	/* ---- post-conditions ---- */
	if (total > 0) {
		/* (a) data at the returned location is the file's data */
		VP_ASSERT(loc >= base && loc + total <= vp_img_size, "returned run lies inside the file");
		for (i = 0; i < NB * SZ; ++i)
			if (i < total)
				VP_ASSERT(vp_img[loc + i] == cat[i], "C08: bytes at the returned location are the file's bytes (dedup never substitutes other data)");
		if (flags[NB - 1] & SQFS_BLK_DONT_DEDUPLICATE) {
			VP_ASSERT(loc == expect_own, "DONT_DEDUPLICATE: the file keeps its own location");
			VP_REACH("dont_dedup");
		}
		if (loc != expect_own)
			VP_REACH("deduplicated");
		else
			VP_REACH("stored");
#if MODE == 2
		VP_ASSERT(loc <= base, "identical earlier run (same bytes, size words, checksums) is shared");
		VP_ASSERT(vp_img_size == old_size, "sharing a run removes the duplicate bytes from the file");
#endif
	} else {
		VP_REACH("all_sparse");
	}
	/* (b) nothing written earlier changed, file did not shrink below old size */
	VP_ASSERT(vp_img_size >= old_size, "truncation never cuts into earlier data");
	for (i = 0; i < VP_IMG; ++i)
		if (i < old_size)
			VP_ASSERT(vp_img[i] == old_img[i], "earlier bytes are unchanged");
	/* (c) invariant re-established */
	VP_ASSERT(wr->file_start <= wr->blocks.used, "I_bw: file_start <= used");
	check_Ibw(wr, base);
}
