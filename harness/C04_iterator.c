/*
 * C04 / C07: record accounting of the tar iterator (lib/tar/src/iterator.c,
 * #included: it_next, it_open_file_ro, strm_get_buffered_data,
 * strm_advance_buffer, strm_destroy, drop_parent, is_sparse_region).
 *
 * The archive stream is a position counter.  read_header() is a stub that
 * notes the position it is called at, consumes one header record and
 * announces an entry with a SYMBOLIC record size (64 bit).  Between two
 * it_next() calls the consumer may open the member, read ANY amount of it in
 * up to 2 chunks (or nothing at all) and close it again.
 * Post: the next header is always read at
 *         data start + record size rounded up to 512,
 * whatever the consumer did (so a member is never re-parsed as headers and
 * no header is skipped); the member stream delivers at most the member's
 * bytes, ends exactly at its size, and the iterator is locked while a member
 * stream is open.
 */
#include "vp.h"
#include <stdlib.h>
#include <string.h>
#include <sys/stat.h>
#include "sqfs/predef.h"

static sqfs_u64 POS, hdr_pos[3];
static unsigned hdr_calls;
static sqfs_u64 R[2];
static int io_fail;
static sqfs_u8 CHUNK[8];

#include "lib/tar/src/iterator.c"

int read_header(sqfs_istream_t *fp, tar_header_decoded_t *out)
{
	(void)fp;
	VP_ASSERT(hdr_calls < 3, "header reads");
	hdr_pos[hdr_calls] = POS;
	if (hdr_calls >= 2) { hdr_calls++; return 1; }
	POS += 512;
	memset(out, 0, sizeof(*out));
	out->name = malloc(2); VP_ASSUME(out->name != NULL); out->name[0] = 'f'; out->name[1] = 0;
	out->mode = S_IFREG | 0644;
	out->record_size = out->actual_size = R[hdr_calls];
	hdr_calls++;
	return 0;
}
void clear_header(tar_header_decoded_t *h) { free(h->name); memset(h, 0, sizeof(*h)); }
int sqfs_istream_skip(sqfs_istream_t *s, sqfs_u64 size) { (void)s; if (ND_BOOL()) { io_fail = 1; return SQFS_ERROR_IO; } POS += size; return 0; }
int canonicalize_name(char *n) { (void)n; return 0; }
int fnmatch(const char *p, const char *s, int f) { (void)p; (void)s; (void)f; return 1; }
sqfs_dir_entry_t *sqfs_dir_entry_create(const char *name, sqfs_u16 mode, sqfs_u16 flags)
{
	sqfs_dir_entry_t *e = calloc(1, sizeof(*e) + 2);
	VP_ASSUME(e != NULL);
	e->name[0] = name[0]; e->mode = mode; e->flags = flags;
	return e;
}
sqfs_xattr_t *sqfs_xattr_list_copy(const sqfs_xattr_t *l) { (void)l; return NULL; }
/* the archive stream underneath: hands out 1..8 bytes at a time */
static int base_get(sqfs_istream_t *s, const sqfs_u8 **out, size_t *size, size_t want)
{
	size_t n = ND_SZ();
	(void)s;
	VP_ASSERT(want >= 1, "the member stream never asks the archive for zero bytes");
	if (ND_BOOL()) { io_fail = 1; return SQFS_ERROR_IO; }
	VP_ASSUME(n >= 1 && n <= 8);
	*out = CHUNK; *size = n;	/* may be MORE than wanted: the wrapper must clip it */
	return 0;
}
static void base_adv(sqfs_istream_t *s, size_t count) { (void)s; POS += count; }
static void base_destroy(sqfs_object_t *o) { (void)o; }

static tar_iterator_t IT;
static sqfs_istream_t BASE;

#ifdef HOSTILE
/*
 * HOSTILE shape (C07): the sparse map of the member is ARBITRARY (two regions
 * with any 64 bit offsets and counts: overlapping, unsorted, empty, beyond the
 * file size) - it comes straight from an untrusted archive.  Post: reading the
 * member is memory safe and every successful call delivers at least one byte,
 * so the member ends after at most `size` calls (no endless loop), whatever
 * the map says.
 */
#ifndef FSMAX
#define FSMAX 6
#endif
static sparse_map_t MAP[2];
void harness(void)
{
	sqfs_dir_entry_t *ent = NULL;
	sqfs_istream_t *ms = NULL;
	sqfs_u64 fs = ND_U64(), off = 0;
	int ret = 0, done = 0;

	VP_ASSUME(fs <= FSMAX);
	R[0] = ND_U64(); R[1] = 0;
	POS = 4096;
	BASE.base.refcount = 1; BASE.base.destroy = base_destroy; BASE.get_buffered_data = base_get; BASE.advance_buffer = base_adv;
	IT.base.obj.refcount = 1; IT.base.obj.destroy = it_destroy;
	IT.stream = &BASE;
	ret = it_next(&IT.base, &ent);
	VP_ASSERT(ret == 0 && ent != NULL, "entry");
	free(ent);
	MAP[0].offset = ND_U64(); MAP[0].count = ND_U64(); MAP[0].next = ND_BOOL() ? &MAP[1] : NULL;
	MAP[1].offset = ND_U64(); MAP[1].count = ND_U64(); MAP[1].next = NULL;
	IT.current.sparse = &MAP[0]; IT.current.actual_size = fs; IT.file_size = fs;
	ret = it_open_file_ro(&IT.base, &ms);
	VP_ASSERT(ret == 0 && ms != NULL, "member stream");
	for (int k = 0; k < FSMAX + 1; ++k) {
		const sqfs_u8 *p; size_t n = 0;
		ret = strm_get_buffered_data(ms, &p, &n, 4096);
		if (ret != 0) { done = 1; break; }
		VP_ASSERT(n >= 1, "C07: every successful read of a member makes progress (no endless loop on a crafted sparse map)");
		/* (a crafted map whose region is larger than the file makes the member
		   deliver archive bytes beyond the announced size; that is wrong data
		   for a wrong archive, not a crash or hang, and not demanded by C07) */
		VP_ASSERT(VP_R_OK(p, n), "chunk readable");
		strm_advance_buffer(ms, n);
		off += n;
	}
	VP_ASSERT(done, "C07: the member ends after at most `size` successful reads");
	IT.current.sparse = NULL;
	if (ret > 0) VP_REACH("ended"); else VP_REACH("io_error");
}
#elif defined(SPARSE)
/*
 * SPARSE shape: one member with a sparse map of one data region
 * [so, so+sc) inside a file of fs bytes (all symbolic, fs <= FSMAX); only the
 * sc data bytes are in the archive.  The consumer reads the whole member.
 * Post: exactly fs bytes are delivered; a byte at file offset o comes from
 * the archive iff so <= o < so+sc, otherwise from the zero buffer; the archive
 * is advanced by exactly sc bytes, so the next header is found.
 */
#ifndef FSMAX
#define FSMAX 12
#endif
static sparse_map_t MAP;
void harness(void)
{
	sqfs_dir_entry_t *ent = NULL;
	sqfs_istream_t *ms = NULL;
	sqfs_u64 fs = ND_U64(), so = ND_U64(), sc = ND_U64(), off = 0, data_start, from_archive = 0;
	int ret, done = 0;

	VP_ASSUME(fs <= FSMAX && so <= fs && sc >= 1 && sc <= fs - so);
	R[0] = sc; R[1] = 0;
	POS = 4096;
	BASE.base.refcount = 1; BASE.base.destroy = base_destroy; BASE.get_buffered_data = base_get; BASE.advance_buffer = base_adv;
	IT.base.obj.refcount = 1; IT.base.obj.destroy = it_destroy;
	IT.stream = &BASE;
	ret = it_next(&IT.base, &ent);
	VP_ASSERT(ret == 0 && ent != NULL, "entry");
	free(ent);
	/* what read_header() delivers for a sparse member */
	MAP.offset = so; MAP.count = sc; MAP.next = NULL;
	IT.current.sparse = &MAP; IT.current.actual_size = fs; IT.file_size = fs;
	data_start = POS;
	ret = it_open_file_ro(&IT.base, &ms);
	VP_ASSERT(ret == 0 && ms != NULL, "member stream");
	for (int k = 0; k < FSMAX + 2; ++k) {
		const sqfs_u8 *p; size_t n = 0;
		ret = strm_get_buffered_data(ms, &p, &n, 4096);
		if (ret != 0) { done = 1; break; }
		VP_ASSERT(n >= 1 && off + n <= fs, "C04: never more than the file size");
		if (off >= so && off < so + sc) {
			VP_ASSERT(p == CHUNK && off + n <= so + sc, "C04: bytes inside the mapped region come from the archive and do not run past the region");
			from_archive += n;
		} else {
			VP_ASSERT(p == ((tar_istream_t *)ms)->buffer && p[0] == 0 && (off >= so || off + n <= so), "C04: bytes outside the mapped region are zeros and do not run into the region");
		}
		strm_advance_buffer(ms, n);
		off += n;
	}
	if (ret < 0) { VP_ASSERT(io_fail, "only I/O errors"); VP_REACH("io_error"); IT.current.sparse = NULL; return; }
	VP_ASSERT(done && off == fs, "C04: a sparse member is delivered with exactly its real size");
	VP_ASSERT(from_archive == sc && POS == data_start + sc, "C04: exactly the stored bytes are taken from the archive");
	IT.current.sparse = NULL;
	strm_destroy((sqfs_object_t *)ms);
	VP_REACH("sparse_member");
}
#else
void harness(void)
{
	sqfs_dir_entry_t *ent = NULL;
	sqfs_istream_t *ms = NULL;
	sqfs_u64 data_start, consumed = 0;
	int ret;

	R[0] = ND_U64(); R[1] = ND_U64();
	VP_ASSUME(R[0] < ((sqfs_u64)1 << 62));
	POS = ND_U64(); VP_ASSUME(POS < ((sqfs_u64)1 << 62));
	BASE.base.refcount = 1; BASE.base.destroy = base_destroy; BASE.get_buffered_data = base_get; BASE.advance_buffer = base_adv;
	IT.base.obj.refcount = 1; IT.base.obj.destroy = it_destroy;
	IT.stream = &BASE;

	ret = it_next(&IT.base, &ent);
	VP_ASSERT(ret == 0 && ent != NULL && ent->size == R[0], "first entry");
	data_start = POS;
	free(ent);

	if (ND_BOOL()) {
		ret = it_open_file_ro(&IT.base, &ms);
		VP_ASSERT(ret == 0 && ms != NULL, "member stream");
		{
			sqfs_istream_t *second = NULL;
			VP_ASSERT(IT.locked && it_next(&IT.base, &ent) == SQFS_ERROR_SEQUENCE && it_open_file_ro(&IT.base, &second) == SQFS_ERROR_SEQUENCE && second == NULL,
				  "while a member stream is open the iterator refuses to move on or to open it twice");
		}
		for (int k = 0; k < 2; ++k) {
			const sqfs_u8 *p; size_t n = 0, take;
			ret = strm_get_buffered_data(ms, &p, &n, 4096);
			if (ret != 0) {
				VP_ASSERT(ret < 0 ? io_fail : consumed == R[0], "C04: the member stream ends exactly at the member's size");
				break;
			}
			VP_ASSERT(n >= 1 && consumed + n <= R[0], "C04: a member stream never delivers bytes beyond the member (next header / padding)");
			take = ND_SZ(); VP_ASSUME(take <= n);
			strm_advance_buffer(ms, take);
			consumed += take;
		}
		strm_destroy((sqfs_object_t *)ms);
		VP_ASSERT(!IT.locked, "closing the member stream unlocks the iterator");
		VP_REACH("member_read");
	}
	if (io_fail) { VP_REACH("io_error"); return; }

	ret = it_next(&IT.base, &ent);
	if (ret == 0) {
		VP_ASSERT(hdr_calls == 2, "second header read");
		VP_ASSERT(hdr_pos[1] == data_start + R[0] + ((R[0] % 512) ? 512 - (R[0] % 512) : 0),
			  "C04: the next header is read exactly behind the member and its padding, however much of the member was consumed");
		free(ent);
		VP_REACH("next_entry");
	} else {
		VP_ASSERT(io_fail, "iteration fails only on I/O errors here");
		VP_REACH("io_error");
	}
}
#endif
