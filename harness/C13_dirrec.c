/*
 * C13 (allocation failure) / C05: the recursive directory iterator
 * (lib/sqfs/src/io/dir_rec.c, #included: next, expand_path, pop, destroy,
 * sqfs_dir_iterator_create_recursive) over a stub base iterator, with every
 * allocation allowed to fail (CBMC malloc-may-fail) and every base iterator
 * call allowed to fail.
 * Post: next() returning 0 always hands out an entry (never 0 with a NULL
 * entry - the callers dereference it); an error is sticky; everything is
 * released by destroy (memory-leak check).
 */
#include "vp.h"
#include <stdlib.h>
#include <string.h>
#include <sys/stat.h>
#include "sqfs/predef.h"
#include "lib/sqfs/src/io/dir_rec.c"

static unsigned served, subs;
static sqfs_dir_iterator_t BASE, SUB;
static void base_destroy(sqfs_object_t *o) { (void)o; }
static int base_next(sqfs_dir_iterator_t *it, sqfs_dir_entry_t **out)
{
	sqfs_dir_entry_t *e;
	(void)it;
	*out = NULL;
	if (served >= 2) return 1;
	if (ND_BOOL()) return SQFS_ERROR_IO;
	e = calloc(1, sizeof(*e) + 2);
	if (e == NULL) return SQFS_ERROR_ALLOC;
	e->name[0] = 'd';
	e->mode = (ND_BOOL() ? S_IFDIR : S_IFREG) | 0755;
	served++;
	*out = e;
	return 0;
}
static int base_open_subdir(sqfs_dir_iterator_t *it, sqfs_dir_iterator_t **out)
{
	(void)it;
	if (ND_BOOL()) { *out = NULL; return SQFS_ERROR_ALLOC; }
	SUB.obj.refcount = 1; SUB.obj.destroy = base_destroy; SUB.next = base_next; SUB.open_subdir = base_open_subdir;
	subs++;
	*out = &SUB;
	return 0;
}

/* ONE call of next() from the state right after construction (typed static
   objects instead of the constructor's heap objects: a chain of heap stack
   entries over several calls runs the SAT conversion out of memory) */
static dir_tree_iterator_t IT;
static struct { dir_stack_t s; char name[2]; } TOP;
void harness(void)
{
	sqfs_dir_entry_t *ent = NULL;
	int ret, again;

	BASE.obj.refcount = 2; BASE.obj.destroy = base_destroy; BASE.next = base_next; BASE.open_subdir = base_open_subdir;
	TOP.s.dir = &BASE; TOP.s.name[0] = ND_BOOL() ? 'p' : 0;	/* root or a directory called "p" */
	IT.next_top = &TOP.s;

	ret = next((sqfs_dir_iterator_t *)&IT, &ent);
	if (ret == 0) {
		VP_ASSERT(ent != NULL, "C13: next() never reports success without an entry (an allocation failure inside it is an error, not a NULL entry)");
		if (ent == NULL) return;
		VP_ASSERT(S_ISDIR(ent->mode) == (IT.next_top != NULL), "a directory entry prepares its sub-iterator, other entries do not");
		if (IT.next_top != NULL) { VP_ASSERT(IT.next_top->dir == &SUB && IT.next_top->name[0] == 'd', "sub-directory queued under its own name"); free(IT.next_top); IT.next_top = NULL; }
		free(ent);
		VP_REACH("entry");
	} else {
		VP_ASSERT(ent == NULL, "no entry on error / end");
		again = next((sqfs_dir_iterator_t *)&IT, &ent);
		VP_ASSERT(again == ret && ent == NULL, "error / end of iteration is sticky");
		if (IT.next_top != NULL) { free(IT.next_top); IT.next_top = NULL; }
		if (ret < 0) VP_REACH("error"); else VP_REACH("end");
	}
}
