/*
 * C19: copy of a data reader (with or without cached data/fragment block):
 * header, deep copy of the caches and of the fragment table, shared
 * file/compressor reference counted, both release orders (this is the path on
 * which the missing object header of fragment-table copies crashed).
 * real code: lib/sqfs/src/data_reader.c (#included), frag_table.c, array.c,
 *            alloc.c
 */
#ifndef BS
#define BS 4
#endif
#define VP_IMG 8
#define VP_MAXIO BS
#define VP_CMP_MAXOUT BS
#include "vp_sqfs_stubs.h"
#include "sqfs/frag_table.h"
#include <stdlib.h>

/*
 * alloc_flex(sizeof(reader), 1, block_size) is modelled by a TYPED zeroed
 * allocation of exactly that size (CBMC encodes calloc(1, n) of a non-sizeof
 * size as a byte array, which does not finish).  The arguments are asserted.
 */
void *vp_alloc_rd(size_t base, size_t item, size_t n);
#define alloc_flex(base, item, n) vp_alloc_rd(base, item, n)
#include "lib/sqfs/src/data_reader.c"
#undef alloc_flex
struct vp_rd_w { sqfs_data_reader_t rd; sqfs_u8 pad[BS]; };
void *vp_alloc_rd(size_t base, size_t item, size_t n)
{
	struct vp_rd_w *w;
	VP_ASSERT(base == sizeof(sqfs_data_reader_t) && item == 1 && n == BS, "reader object is allocated with room for one block of scratch space");
	w = malloc(sizeof(struct vp_rd_w));
	if (w != NULL)
		memset(w, 0, sizeof(*w));
	return w;
}

static void vp_drop_reader(sqfs_data_reader_t *d)
{
	sqfs_object_t *o = (sqfs_object_t *)d;
	VP_ASSERT(o->refcount == 1 && o->destroy == data_reader_destroy, "release runs the data reader destructor");
	data_reader_destroy(o);
}

void harness(void)
{
	sqfs_file_t *f = vp_file_init();
	sqfs_compressor_t *c = vp_cmp_init();
	sqfs_data_reader_t *a, *b;
	sqfs_fragment_t fa, fb;
	sqfs_u32 idx;

	a = sqfs_data_reader_create(f, BS, c, 0);
	VP_ASSUME(a != NULL);
	VP_ASSUME(sqfs_frag_table_append(a->frag_tbl, ND_U64(), ND_U32(), &idx) == 0);

	/* history before the copy: caches present or not */
	if (ND_BOOL()) {
		a->data_block = malloc(BS);
		VP_ASSUME(a->data_block != NULL);
		for (int i = 0; i < BS; ++i) a->data_block[i] = ND_U8();	/* superset of what get_block() leaves (zeros behind data_blk_size) */
		a->data_blk_size = ND_SZ();
		VP_ASSUME(a->data_blk_size <= BS);
		a->current_block = ND_U64();
	}
	if (ND_BOOL()) {
		a->frag_block = malloc(BS);
		VP_ASSUME(a->frag_block != NULL);
		for (int i = 0; i < BS; ++i) a->frag_block[i] = ND_U8();
		a->frag_blk_size = ND_SZ();
		VP_ASSUME(a->frag_blk_size <= BS);
		a->current_frag_index = 0;
	}

	VP_ASSERT(a->obj.copy == data_reader_copy, "data reader is copyable");
	b = (sqfs_data_reader_t *)data_reader_copy((sqfs_object_t *)a);	/* what sqfs_copy() calls */
	VP_ASSUME(b != NULL);
	b->obj.refcount = 1;						/* ... and does afterwards */

	VP_ASSERT(b != a && b->obj.destroy == data_reader_destroy && b->obj.copy == data_reader_copy, "copy has the hooks of its kind");
	VP_ASSERT(b->frag_tbl != a->frag_tbl && b->frag_tbl != NULL, "fragment table is duplicated, not shared");
	VP_ASSERT(((sqfs_object_t *)b->frag_tbl)->destroy != NULL && ((sqfs_object_t *)b->frag_tbl)->refcount == 1,
		  "the duplicated fragment table is a complete object");
	VP_ASSERT((a->data_block == NULL) == (b->data_block == NULL) && (a->data_block == NULL || a->data_block != b->data_block), "data cache deep-copied");
	VP_ASSERT((a->frag_block == NULL) == (b->frag_block == NULL) && (a->frag_block == NULL || a->frag_block != b->frag_block), "fragment cache deep-copied");
	if (a->data_block != NULL) {
		VP_ASSERT(b->data_blk_size == a->data_blk_size && b->current_block == a->current_block, "cache tags copied");
		/* sqfs_data_reader_read() copies up to block_size - offset bytes out of a
		   cached block whatever data_blk_size says (get_block() always allocates
		   a zeroed block_size buffer): the copy must offer the same */
		VP_ASSERT(VP_R_OK(b->data_block, BS), "C19: the copy's data cache holds one full block like the original's (readers copy up to block_size bytes out of it)");
		for (size_t i = 0; i < BS; ++i)
			if (i < a->data_blk_size || VP_R_OK(b->data_block, BS))
				VP_ASSERT(a->data_block[i] == b->data_block[i], "cached data block content equal over the whole block");
		VP_REACH("with_data_cache");
	}
	if (a->frag_block != NULL) {
		VP_ASSERT(b->frag_blk_size == a->frag_blk_size && VP_R_OK(b->frag_block, BS), "C19: the copy's fragment cache holds one full block like the original's");
		for (size_t i = 0; i < BS; ++i)
			if (i < a->frag_blk_size)
				VP_ASSERT(a->frag_block[i] == b->frag_block[i], "cached fragment block content equal");
		VP_REACH("with_frag_cache");
	}
	VP_ASSERT(b->file == f && b->cmp == c && f->base.refcount == 3 && c->base.refcount == 3, "file and compressor shared by reference count");
	VP_ASSERT(sqfs_frag_table_lookup(a->frag_tbl, 0, &fa) == 0 && sqfs_frag_table_lookup(b->frag_tbl, 0, &fb) == 0 &&
		  fa.start_offset == fb.start_offset && fa.size == fb.size, "fragment table content equal");

	if (ND_BOOL()) {
		vp_drop_reader(a);
		VP_ASSERT(vp_file_destroyed == 0 && vp_cmp_destroyed == 0, "shared objects outlive the first release");
		vp_drop_reader(b);
		VP_REACH("orig_first");
	} else {
		vp_drop_reader(b);
		VP_ASSERT(vp_file_destroyed == 0 && vp_cmp_destroyed == 0, "shared objects outlive the first release");
		vp_drop_reader(a);
		VP_REACH("copy_first");
	}
	VP_ASSERT(vp_file_destroyed == 0 && vp_cmp_destroyed == 0, "the harness' own references remain");
}
