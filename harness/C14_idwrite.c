/*
 * C14 O-3b: sqfs_id_table_write() itself performs no file write: everything
 * goes through sqfs_write_table() (whose append-only behaviour is obligation
 * frag_table_write_appends_only / the write_table.c part of it).  In
 * particular it does not commit a superblock.
 * real code: lib/sqfs/src/id_table.c (#included)
 */
#define VP_IMG 128
#define VP_MAXIO 96
#include "vp_sqfs_stubs.h"
#include "sqfs/super.h"
static unsigned wt_calls;
int sqfs_write_table(sqfs_file_t *f, sqfs_compressor_t *c, const void *d, size_t n, sqfs_u64 *start)
{ (void)f; (void)c; (void)d; (void)n; wt_calls++; *start = vp_img_size; return ND_BOOL() ? SQFS_ERROR_IO : 0; }
int sqfs_read_table(sqfs_file_t *f, sqfs_compressor_t *c, size_t n, sqfs_u64 loc, sqfs_u64 lo, sqfs_u64 hi, void **out)
{ (void)f; (void)c; (void)n; (void)loc; (void)lo; (void)hi; *out = NULL; return SQFS_ERROR_IO; }
#include "lib/sqfs/src/id_table.c"
static sqfs_id_table_t T;
static sqfs_u32 IDS[4];
void harness(void)
{
	sqfs_file_t *f = vp_file_init();
	sqfs_super_t super;
	sqfs_u32 a = ND_U32(), b = ND_U32();
	int ret;
	sqfs_super_init(&super, 4096, 0, SQFS_COMP_GZIP);
	vp_img_size = 100;
	IDS[0] = a; IDS[1] = b;
	T.ids.size = 4; T.ids.count = 4; T.ids.used = 2; T.ids.data = IDS;
	ret = sqfs_id_table_write(&T, f, &super, NULL);
	VP_ASSERT(wt_calls == 1, "the table goes through sqfs_write_table exactly once");
	VP_ASSERT(vp_wlog_n == 0 && vp_trunc_n == 0, "C14: the id table writer does not write to the file itself (it never commits a superblock)");
	VP_ASSERT(IDS[0] == a && IDS[1] == b, "C10: writing leaves the in-memory table unchanged");
	if (ret == 0) {
		VP_ASSERT(super.id_count == 2 && super.id_table_start == 100, "superblock fields set in memory only");
		VP_REACH("ok");
	} else {
		VP_REACH("error_propagated");
	}
}
