/*
 * C07: a `glob` line of a pack file must not crash gensquashfs whatever the
 * command line was: glob_files() (bin/gensquashfs/src/glob.c, #included) with
 * the pack directory possibly NULL (no -D option and a pack file given
 * without a directory component) and 0..1 trailing path arguments.
 * Post: the directory iterator is created with a valid, NUL terminated path
 * (the pack directory, "." when none is known, or <dir>/<argument>).
 */
#include "vp.h"
#include <stdlib.h>
#include <string.h>
#include <stdio.h>
#include <errno.h>
#include <sys/stat.h>
#include "mkfs.h"
static int created; static char seen[8];
static tree_node_t ROOT;
tree_node_t *fstree_get_node_by_path(fstree_t *fs, tree_node_t *root, const char *path, bool ci, bool sp) { (void)fs; (void)root; (void)path; (void)ci; (void)sp; return &ROOT; }
char *fstree_get_path(tree_node_t *n) { char *p = malloc(2); (void)n; if (p) { p[0] = '/'; p[1] = 0; } return p; }
int canonicalize_name(char *s) { s[0] = 0; return 0; }
sqfs_dir_iterator_t *dir_tree_iterator_create(const char *path, const dir_tree_cfg_t *cfg)
{
	(void)cfg;
	VP_ASSERT(path != NULL, "C07: the directory scan is given a path even when no pack directory is known (no NULL dereference on `gensquashfs -F pack.txt` with a glob line)");
	if (path == NULL) return NULL;
	for (int i = 0; i < 7; ++i) { seen[i] = path[i]; if (path[i] == 0) break; }
	created++;
	return NULL;	/* "cannot open": ends the call */
}
int fstree_add_generic_stub;
tree_node_t *fstree_add_generic(fstree_t *fs, const sqfs_dir_entry_t *e, const char *x) { (void)fs; (void)e; (void)x; return NULL; }
#include "bin/gensquashfs/src/glob.c"

static struct { split_line_t s; char *args[3]; } L;
static char arg0[] = "sub";
void harness(void)
{
	static fstree_t fs; static struct { sqfs_dir_entry_t e; char n[2]; } E;
	const char *base = ND_BOOL() ? "dir" : NULL;
	int ret;
	ROOT.mode = S_IFDIR | 0755; fs.root = &ROOT;
	if (ND_BOOL()) { L.s.args[0] = arg0; L.s.count = 1; }
	ret = glob_files(&fs, "pack", 1, &E.e, base, 0, &L.s);
	VP_ASSERT(ret == -1 && created == 1, "the scan was attempted once");
	if (base == NULL) { VP_ASSERT(seen[0] == '.', "without a pack directory the scan is relative to the current directory"); VP_REACH("no_packdir"); }
	else { VP_ASSERT(seen[0] == 'd', "scan below the pack directory"); VP_REACH("packdir"); }
}
