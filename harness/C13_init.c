/*
 * C13: sqfs_writer_init() (lib/common/src/writer/init.c, #included) with a
 * fault injected at EVERY step: each constructor / I/O helper it calls is a
 * stub that nondeterministically fails (NULL / negative error).
 *
 * For every fault position the solver proves
 *   - failure is reported (non-zero) and success only if every step succeeded,
 *   - on failure every object that had been created is released exactly once
 *     (no leak, no double drop) and the tree is cleaned iff it was set up,
 *   - C13 "the packers remove their partial output file": once the output
 *     file has been created/truncated by sqfs_file_open(), a failing init
 *     removes it again (the callers bail out without sqfs_writer_cleanup());
 *     a file that could NOT be opened (e.g. it exists and -f was not given)
 *     is never removed,
 *   - on success nothing is released or removed and the writer holds exactly
 *     the objects that were created.
 */
#include "vp.h"
#include <stdlib.h>
#include <string.h>
#include <stdio.h>
#include "simple_writer.h"
#include "compress_cli.h"
#include "common.h"

enum { O_FILE, O_CMP, O_UNCMP, O_BLKWR, O_FRAG, O_DATA, O_ID, O_XWR, O_IM, O_DM, O_DIRWR, O_COUNT };

static sqfs_file_t FILEOBJ;
static sqfs_compressor_t CMP[2];
static sqfs_object_t OBJ[O_COUNT];
static sqfs_object_t *objptr[O_COUNT];
static int created[O_COUNT], dropped[O_COUNT];
static int unlinked, tree_inited, tree_cleaned, cmp_calls, mw_calls, diag;
static const char *unlinked_name;

static void destroy_stub(sqfs_object_t *o)
{
	for (int i = 0; i < O_COUNT; ++i)
		if (objptr[i] == o)
			dropped[i]++;
}
static void *make(int id, void *mem)
{
	sqfs_object_t *o = mem;
	if (ND_BOOL())
		return NULL;
	o->refcount = 1;
	o->destroy = destroy_stub;
	objptr[id] = o;
	created[id]++;
	return o;
}
static int wropt_ret;
static int write_options_stub(sqfs_compressor_t *c, sqfs_file_t *f) { (void)c; (void)f; return wropt_ret; }

int unlink(const char *p) { unlinked++; unlinked_name = p; return 0; }
void sqfs_perror(const char *f, const char *a, int c) { (void)f; (void)a; (void)c; diag++; }
#define perror(s) ((void)(diag++))
#define fputs(s, f) ((void)(diag++))

SQFS_COMPRESSOR compressor_get_default(void) { return SQFS_COMP_GZIP; }
int compressor_cfg_init_options(sqfs_compressor_config_t *cfg, SQFS_COMPRESSOR id, size_t bs, char *o)
{
	(void)o;
	memset(cfg, 0, sizeof(*cfg));
	cfg->id = id; cfg->block_size = bs;
	return ND_BOOL() ? -1 : 0;
}
int sqfs_file_open(sqfs_file_t **out, const char *fn, sqfs_u32 flags)
{
	(void)fn; (void)flags;
	*out = make(O_FILE, &FILEOBJ);
	return *out == NULL ? SQFS_ERROR_IO : 0;
}
int parse_fstree_defaults(fstree_defaults_t *out, char *str) { (void)str; memset(out, 0, sizeof(*out)); return ND_BOOL() ? -1 : 0; }
int fstree_init(fstree_t *fs, const fstree_defaults_t *d) { (void)d; (void)fs; if (ND_BOOL()) return -1; tree_inited++; return 0; }
void fstree_cleanup(fstree_t *fs) { (void)fs; tree_cleaned++; }
int sqfs_compressor_create(const sqfs_compressor_config_t *cfg, sqfs_compressor_t **out)
{
	int k = cmp_calls++;
	(void)cfg;
	VP_ASSERT(k < 2, "two compressor instances");
	*out = make(k == 0 ? O_CMP : O_UNCMP, &CMP[k < 2 ? k : 0]);
	if (*out == NULL)
		return SQFS_ERROR_ALLOC;
	(*out)->write_options = write_options_stub;
	return 0;
}
int sqfs_super_init(sqfs_super_t *s, size_t bs, sqfs_u32 mt, SQFS_COMPRESSOR c) { (void)bs; (void)mt; (void)c; memset(s, 0, sizeof(*s)); return ND_BOOL() ? SQFS_ERROR_SUPER_BLOCK_SIZE : 0; }
int sqfs_super_write(const sqfs_super_t *s, sqfs_file_t *f) { (void)s; VP_ASSERT(f == &FILEOBJ, "superblock goes to the output file"); return ND_BOOL() ? SQFS_ERROR_IO : 0; }
sqfs_block_writer_t *sqfs_block_writer_create(sqfs_file_t *f, sqfs_u32 fl) { (void)f; (void)fl; return make(O_BLKWR, &OBJ[O_BLKWR]); }
sqfs_frag_table_t *sqfs_frag_table_create(sqfs_u32 fl) { (void)fl; return make(O_FRAG, &OBJ[O_FRAG]); }
int sqfs_block_processor_create_ex(const sqfs_block_processor_desc_t *d, sqfs_block_processor_t **out)
{
	VP_ASSERT(d->cmp == (void *)objptr[O_CMP] && d->uncmp == (void *)objptr[O_UNCMP] && d->wr == (void *)objptr[O_BLKWR] &&
		  d->tbl == (void *)objptr[O_FRAG] && d->file == &FILEOBJ, "block processor is wired to the objects created before");
	*out = make(O_DATA, &OBJ[O_DATA]);
	return *out == NULL ? SQFS_ERROR_ALLOC : 0;
}
sqfs_id_table_t *sqfs_id_table_create(sqfs_u32 fl) { (void)fl; return make(O_ID, &OBJ[O_ID]); }
sqfs_xattr_writer_t *sqfs_xattr_writer_create(sqfs_u32 fl) { (void)fl; return make(O_XWR, &OBJ[O_XWR]); }
sqfs_meta_writer_t *sqfs_meta_writer_create(sqfs_file_t *f, sqfs_compressor_t *c, sqfs_u32 fl)
{
	int k = mw_calls++;
	(void)f; (void)c; (void)fl;
	VP_ASSERT(k < 2, "two metadata writers");
	return make(k == 0 ? O_IM : O_DM, &OBJ[k == 0 ? O_IM : O_DM]);
}
sqfs_dir_writer_t *sqfs_dir_writer_create(sqfs_meta_writer_t *dm, sqfs_u32 fl) { (void)dm; (void)fl; return make(O_DIRWR, &OBJ[O_DIRWR]); }

#include "lib/common/src/writer/init.c"

void harness(void)
{
	static sqfs_writer_t W;
	static sqfs_writer_cfg_t cfg;
	int ret, i;

	cfg.filename = "out.sqfs";
	cfg.block_size = 131072;
	cfg.num_jobs = 1;
	cfg.comp_id = SQFS_COMP_GZIP;
	cfg.no_xattr = ND_BOOL();
	cfg.exportable = ND_BOOL();
	wropt_ret = ND_I32();
	VP_ASSUME(wropt_ret >= -20 && wropt_ret <= 1);

	ret = sqfs_writer_init(&W, &cfg);

	for (i = 0; i < O_COUNT; ++i)
		VP_ASSERT(created[i] <= 1, "every object is created at most once");
	if (ret == 0) {
		for (i = 0; i < O_COUNT; ++i) {
			VP_ASSERT(dropped[i] == 0, "success: nothing is released");
			VP_ASSERT(created[i] == 1 || (i == O_XWR && cfg.no_xattr), "C13: success only if every step succeeded");
		}
		VP_ASSERT(W.outfile == &FILEOBJ && (void *)W.cmp == (void *)objptr[O_CMP] && (void *)W.uncmp == (void *)objptr[O_UNCMP] &&
			  (void *)W.blkwr == (void *)objptr[O_BLKWR] && (void *)W.fragtbl == (void *)objptr[O_FRAG] && (void *)W.data == (void *)objptr[O_DATA] &&
			  (void *)W.idtbl == (void *)objptr[O_ID] && (void *)W.im == (void *)objptr[O_IM] && (void *)W.dm == (void *)objptr[O_DM] &&
			  (void *)W.dirwr == (void *)objptr[O_DIRWR], "the writer holds the objects that were created");
		VP_ASSERT(wropt_ret >= 0 && tree_inited == 1 && tree_cleaned == 0, "success: options written, tree kept");
		VP_ASSERT(unlinked == 0, "C13: a successful init keeps the output file");
		VP_ASSERT(W.filename == cfg.filename, "file name remembered for cleanup");
		VP_REACH("success");
	} else {
		for (i = 0; i < O_COUNT; ++i)
			VP_ASSERT(dropped[i] == created[i], "C13: a failing init releases every object it created exactly once");
		VP_ASSERT(tree_cleaned == tree_inited, "the tree is cleaned up iff it was set up");
		if (created[O_FILE]) {
			VP_ASSERT(unlinked == 1 && unlinked_name == cfg.filename,
				  "C13: a failing init removes the output file it has created/truncated (callers exit without sqfs_writer_cleanup)");
			VP_REACH("failed_after_open");
		} else {
			VP_ASSERT(unlinked == 0, "C13: a file that could not be opened is never removed");
			VP_REACH("failed_before_open");
		}
	}
}
