/*
 * C05 O-7 (unit form): the directory loop test used while reading the
 * hierarchy.  would_be_own_parent(parent, n) must answer "true" exactly when
 * some ancestor carries n's inode number - independently of inode types and
 * of everything else in the nodes.  With that, every fill_dir() recursion
 * step adds a node whose inode number differs from all of its ancestors, so
 * the recursion depth is bounded by the number of distinct inode numbers in
 * the image (termination argument; the whole-recursion query over a symbolic
 * graph did not finish: 3 loops x recursion = path explosion).
 * real code: lib/common/src/read_tree.c (#included)
 */
#include "vp.h"
#include <string.h>
#include <stdlib.h>
#ifndef DEPTH
#define DEPTH 3
#endif
#include "lib/common/src/read_tree.c"

static struct { sqfs_tree_node_t n; char name[2]; } CH[DEPTH + 1];
static sqfs_inode_generic_t IN[DEPTH + 1];

void harness(void)
{
	static const sqfs_u16 types[4] = { SQFS_INODE_DIR, SQFS_INODE_EXT_DIR, SQFS_INODE_FILE, SQFS_INODE_EXT_SLINK };
	unsigned depth = ND_U32();
	bool spec = false, got;

	VP_ASSUME(depth <= DEPTH);
	for (unsigned i = 0; i <= DEPTH; ++i) {
		unsigned t = ND_U32();
		VP_ASSUME(t < 4);
		IN[i].base.type = types[t];
		IN[i].base.inode_number = ND_U32();
		IN[i].base.mode = ND_U16();
		CH[i].n.inode = &IN[i];
		/* CH[1..depth] is the ancestor chain: CH[1] is the direct parent */
		CH[i].n.parent = (i >= 1 && i < depth) ? &CH[i + 1].n : NULL;
	}
	for (unsigned i = 1; i <= DEPTH; ++i)
		if (i <= depth && IN[i].base.inode_number == IN[0].base.inode_number)
			spec = true;
	got = would_be_own_parent(depth >= 1 ? &CH[1].n : NULL, &CH[0].n);
	VP_ASSERT(got == spec, "C05: a directory loop is detected exactly when an ancestor has the same inode number (for every inode type)");
	if (got) VP_REACH("loop"); else VP_REACH("no_loop");
}
