/*
 * C03 O-3 (+ C14 O-3, C01 metadata layer writer side): metadata blocks
 * produced by the real metadata writer.
 * real code: lib/sqfs/src/meta_writer.c (#included, block size scaled)
 * env: memfile with write log; compressor contract stub (returns <0, 0, or
 *      0 < r < size, content symbolic, every call logged).
 * Independent decode of the file: every block = 16 bit header + payload,
 * payload length 1..M, bit 15 set iff stored uncompressed, uncompressed
 * payloads equal the appended bytes, a compressed payload is shorter than
 * the chunk it stands for, the chunks add up to what was appended, and every
 * file write is an append.
 */
#ifndef A
#define A 3
#endif
#ifndef NAPP
#define NAPP 2
#endif
#define VP_IMG (2 + NAPP * A + 2 * (NAPP * A / VP_META + 2) + 4)
#define VP_MAXIO (VP_META + 2)
#define VP_WLOG 8
#include "vp_sqfs_stubs.h"
#include "sqfs/meta_writer.h"

#define MAXBLK (NAPP * A / VP_META + 2)
static sqfs_u32 c_in[MAXBLK], c_out[MAXBLK];
static unsigned c_calls;
static sqfs_s32 cw_do_block(sqfs_compressor_t *c, const sqfs_u8 *in, sqfs_u32 size, sqfs_u8 *out, sqfs_u32 outsize)
{
	sqfs_s32 r = ND_I32();
	(void)c; (void)in;
	VP_ASSERT(size >= 1 && size <= VP_META && outsize >= size, "metadata writer hands the compressor one block and enough room");
	VP_ASSUME(r < (sqfs_s32)size);	/* contract: <0 error, 0 not smaller, else smaller than input */
	if (c_calls < MAXBLK) {
		c_in[c_calls] = size;
		c_out[c_calls] = r > 0 ? (sqfs_u32)r : 0;
	}
	c_calls++;
	for (sqfs_s32 i = 0; i < VP_META; ++i)
		if (i < r)
			out[i] = ND_U8();
	return r;
}

#include "lib/sqfs/src/meta_writer.c"
static sqfs_meta_writer_t MW;

void harness(void)
{
	unsigned char src[NAPP * A];
	size_t n[NAPP], total = 0, i, k, p, consumed;
	sqfs_u64 base;
	int ret = 0, failed = 0;

	vp_file_init();
	vp_cmp_init();
	vp_cmp.do_block = cw_do_block;
	MW.file = &vp_file;
	MW.cmp = &vp_cmp;
	MW.flags = ND_BOOL() ? SQFS_META_WRITER_KEEP_IN_MEMORY : 0;
#ifdef IOFAIL
	vp_io_may_fail = 1;
#endif
	vp_img_size = ND_U64();
	VP_ASSUME(vp_img_size <= 2);
	base = vp_img_size;

	for (k = 0; k < NAPP; ++k) {
		sqfs_u64 blk; sqfs_u32 off;
		n[k] = ND_SZ();
		VP_ASSUME(n[k] <= A);
		for (i = 0; i < A; ++i)
			src[total + i < NAPP * A ? total + i : 0] = (i < n[k]) ? ND_U8() : src[total + i < NAPP * A ? total + i : 0];
		sqfs_meta_writer_get_position(&MW, &blk, &off);
		VP_ASSERT(off == total % VP_META, "offset part of a position is the fill level of the current block");
		ret = sqfs_meta_writer_append(&MW, src + total, n[k]);
		if (ret != 0) { failed = 1; break; }
		total += n[k];
	}
	if (!failed)
		ret = sqfs_meta_writer_flush(&MW);
	if (!failed && ret == 0 && (MW.flags & SQFS_META_WRITER_KEEP_IN_MEMORY)) {
		VP_ASSERT(vp_wlog_n == 0, "KEEP_IN_MEMORY writes nothing until asked");
		ret = sqfs_meta_write_write_to_file(&MW);
	}
#ifdef IOFAIL
	VP_ASSERT(!vp_io_failed || failed || ret != 0, "C13: a failed file write makes the metadata writer fail");
#endif
	if (failed || ret != 0) {
		VP_REACH("compressor_error");
		return;
	}

	/* every write is an append */
	for (i = 0; i < VP_WLOG; ++i)
		if (i < vp_wlog_n)
			VP_ASSERT(vp_wlog_off[i] == vp_wlog_size_before[i], "C14: the metadata writer only appends to the file");

	/* independent decode */
	p = base;
	consumed = 0;
	for (k = 0; k < MAXBLK; ++k) {
		sqfs_u16 hdr;
		sqfs_u32 len;
		if (p >= vp_img_size)
			break;
		VP_ASSERT(p + 2 <= vp_img_size, "block header inside the file");
		hdr = vp_img[p] | (vp_img[p + 1] << 8);
		len = hdr & 0x7FFF;
		VP_ASSERT(len >= 1 && len <= VP_META, "C03: metadata block payload is 1..M bytes");
		VP_ASSERT(p + 2 + len <= vp_img_size, "block payload inside the file");
		VP_ASSERT(k < c_calls, "one compressor call per block");
		if (hdr & 0x8000) {
			VP_ASSERT(c_out[k] == 0, "C03: stored uncompressed exactly when the compressor reported 'not smaller'");
			VP_ASSERT(len == c_in[k], "uncompressed block holds the whole chunk");
			for (i = 0; i < VP_META; ++i)
				if (i < len)
					VP_ASSERT(vp_img[p + 2 + i] == src[consumed + i], "uncompressed block content is the appended data");
			VP_REACH("uncompressed_block");
		} else {
			VP_ASSERT(c_out[k] == len && len < c_in[k], "C03: a compressed metadata block is smaller than the data it stands for");
			VP_REACH("compressed_block");
		}
		VP_ASSERT(c_in[k] == (total - consumed < VP_META ? total - consumed : VP_META), "blocks are filled to M before a new one starts");
		consumed += c_in[k];
		p += 2 + len;
	}
	VP_ASSERT(p == vp_img_size && consumed == total, "the blocks account for exactly the appended bytes");
	if (total > VP_META)
		VP_REACH("two_blocks");
}
