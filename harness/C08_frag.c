/*
 * C08 O-2: fragment deduplication compares bytes - chunk_info_equals() and
 * load_frag_block() from lib/sqfs/src/block_processor/block_processor.c
 * (#included), for a candidate chunk whose fragment block is
 *   WHERE 0: the fragment block currently being filled (proc->frag_block)
 *   WHERE 1: an in-flight copy (proc->fblk_in_flight list, 2 entries)
 *   WHERE 2: on disk, stored uncompressed (re-read through the file)
 *   WHERE 3: on disk, stored compressed (re-read + uncompress stub)
 * All sizes, offsets, hashes, indices and bytes are symbolic.  The hash of
 * key and candidate are equal or not at the solver's choice (collisions are
 * the common case).
 *
 * Post: result true  => sizes equal AND the candidate's designated bytes are
 *                       byte-identical to the current fragment;
 *       out-of-range offsets/sizes => lookup error is recorded, never a match.
 */
#ifndef BS
#define BS 4
#endif
#ifndef WHERE
#define WHERE 0
#endif
#define VP_IMG 12
#define VP_MAXIO BS
#define VP_CMP_MAXOUT BS
#include "vp_sqfs_stubs.h"
#include "sqfs/frag_table.h"
#include "lib/sqfs/src/block_processor/block_processor.c"

static sqfs_u64 ft_start;
static sqfs_u32 ft_size, ft_index;
int sqfs_frag_table_lookup(sqfs_frag_table_t *tbl, sqfs_u32 index, sqfs_fragment_t *out)
{
	(void)tbl;
	if (index != ft_index)
		return SQFS_ERROR_OUT_OF_BOUNDS;
	out->start_offset = ft_start;
	out->size = ft_size;
	out->pad0 = 0;
	return 0;
}

typedef struct { sqfs_block_t b; sqfs_u8 pad[BS]; } blkw_t;
static struct { sqfs_block_processor_t p; sqfs_u8 pad[BS]; } PW;
static blkw_t CUR, FB, FL0, FL1, CACHE;

static void fill(blkw_t *w)
{
	w->b.size = ND_U32();
	VP_ASSUME(w->b.size <= BS);
	w->b.index = ND_U32();
	for (int i = 0; i < BS; ++i)
		w->b.data[i] = ND_U8();
}

void harness(void)
{
	sqfs_block_processor_t *proc = &PW.p;
	chunk_info_t key, cand;
	unsigned char truth[BS];
	sqfs_u32 truth_size = 0;
	int truth_ok = 0;
	bool eq;

	proc->max_block_size = BS;
	proc->file = vp_file_init();
	proc->uncmp = vp_cmp_init();
	proc->frag_tbl = (sqfs_frag_table_t *)&PW;	/* non-NULL, only passed to the stub */
	proc->fblk_lookup_error = 0;
	vp_img_symbolic();

	fill(&CUR);	/* the fragment being looked up */
	VP_ASSUME(CUR.b.size >= 1);
	proc->current_frag = &CUR.b;

	key.size = CUR.b.size;
	key.hash = ND_U32();
	key.index = 0;
	key.offset = 0;
	cand.size = ND_U32();
	cand.hash = ND_U32();
	cand.index = ND_U32();
	cand.offset = ND_U32();

	proc->frag_block = NULL;
	proc->fblk_in_flight = NULL;
	proc->cached_frag_blk = NULL;

#if WHERE == 0
	fill(&FB);
	FB.b.index = cand.index;
	proc->frag_block = &FB.b;
	for (int i = 0; i < BS; ++i) truth[i] = FB.b.data[i];
	truth_size = FB.b.size;
	truth_ok = 1;
#elif WHERE == 1
	fill(&FL0); fill(&FL1); fill(&FB);
	FL0.b.next = &FL1.b;
	FL1.b.next = NULL;
	proc->fblk_in_flight = &FL0.b;
	proc->frag_block = &FB.b;
	VP_ASSUME(FB.b.index != cand.index);
	VP_ASSUME(FL0.b.index == cand.index || FL1.b.index == cand.index);
	{
		blkw_t *src = FL0.b.index == cand.index ? &FL0 : &FL1;
		for (int i = 0; i < BS; ++i) truth[i] = src->b.data[i];
		truth_size = src->b.size;
		truth_ok = 1;
	}
#else
	/* on disk; optionally a stale cached block of another index is present */
	if (ND_BOOL()) {
		fill(&CACHE);
		VP_ASSUME(CACHE.b.index != cand.index);
		/* cached_frag_blk must be a heap object in the real code only for free();
		   the functions under test never free it */
		proc->cached_frag_blk = &CACHE.b;
	} else {
		/* first use: load_frag_block allocates the cache with alloc_flex */
		proc->cached_frag_blk = NULL;
	}
	ft_index = cand.index;
	ft_start = ND_U64();
	{
		sqfs_u32 dsz = ND_U32();
		VP_ASSUME(dsz <= BS);
#if WHERE == 2
		ft_size = dsz | (1u << 24);
		if (dsz == 0 || (ft_start <= vp_img_size && dsz <= vp_img_size - ft_start)) {
			for (int i = 0; i < BS; ++i)
				truth[i] = (i < (int)dsz) ? vp_img[ft_start + i] : 0;
			truth_size = dsz;
			truth_ok = 1;
		}
#else
		ft_size = dsz;
		if (dsz == 0 || (ft_start <= vp_img_size && dsz <= vp_img_size - ft_start)) {
			unsigned char in[BS];
			sqfs_s32 r;
			for (int i = 0; i < BS; ++i)
				in[i] = (i < (int)dsz) ? vp_img[ft_start + i] : 0;
			r = vp_cmp_do_block(proc->uncmp, in, dsz, truth, BS);
			if (r > 0) {
				truth_size = r;
				truth_ok = 1;
			}
		}
#endif
	}
#endif

#ifdef TWOSTEP
	/* history: an earlier lookup re-read a DIFFERENT on-disk fragment block into
	   the cache (symbolic index and location); the lookup checked below must
	   still see the bytes of ITS block, not the cached ones */
	{
		chunk_info_t prev = cand;
		sqfs_u32 save_idx = ft_index, save_size = ft_size;
		sqfs_u64 save_start = ft_start;
		prev.index = ND_U32();
		VP_ASSUME(prev.index != cand.index);
		ft_index = prev.index;
		ft_start = ND_U64();
		ft_size = (ND_U32() & 7) | (1u << 24);
		(void)chunk_info_equals(proc, &key, &prev);
		proc->fblk_lookup_error = 0;
		ft_index = save_idx; ft_size = save_size; ft_start = save_start;
	}
#endif
	eq = chunk_info_equals(proc, &key, &cand);

	if (eq) {
		VP_ASSERT(key.size == cand.size && key.hash == cand.hash, "match only with equal size and checksum");
		VP_ASSERT(proc->fblk_lookup_error == 0, "a match is never reported together with a lookup error");
		VP_ASSERT(truth_ok, "a match is only reported when the candidate's fragment block could be obtained");
		VP_ASSERT((sqfs_u64)cand.offset + cand.size <= truth_size, "matched chunk lies inside its fragment block");
		for (sqfs_u32 i = 0; i < BS; ++i) {
			if (i < cand.size && truth_ok && (sqfs_u64)cand.offset + i < BS)
				VP_ASSERT(truth[cand.offset + i] == CUR.b.data[i],
					  "C08: a fragment is shared only if its bytes are identical (checksum+size equality alone is not enough)");
		}
		VP_REACH("match");
	} else {
		if (proc->fblk_lookup_error != 0)
			VP_REACH("lookup_error");
		else
			VP_REACH("different");
	}
}
