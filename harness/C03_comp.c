/*
 * C03 O-4: compressor wrapper contract (include/sqfs/compressor.h): when
 * compressing, do_block returns a negative error, 0 ("did not shrink, store
 * uncompressed"), or a size that is STRICTLY smaller than the input and not
 * larger than the output buffer.  The block processor / meta writer rely on
 * this: "no stored block is larger than its uncompressed size".
 *
 * real code: lib/sqfs/src/comp/lz4.c (KIND 1), zstd.c (KIND 2), gzip.c (KIND 3,
 *            incl. the strategy search) or xz.c (KIND 4, incl. the filter search), #included
 * env: contract stubs of the codec library entry points: they may return any
 *      value their documentation allows and write that many bytes.
 */
#include "vp.h"
#include <stddef.h>
#ifndef KIND
#define KIND 1
#endif
#ifndef CAP
#define CAP 8
#endif

#if KIND == 1
#include <lz4.h>
#include <lz4hc.h>
static int lz4_model(char *dst, int srcSize, int dstCapacity)
{
	/* LZ4_compress_default/HC: number of bytes written into dst (<= dstCapacity)
	   or 0 if the compression fails; never more than LZ4_COMPRESSBOUND(srcSize) */
	int r = ND_I32();
	VP_ASSUME(r >= 0 && r <= dstCapacity && r <= LZ4_COMPRESSBOUND(srcSize));
	for (int i = 0; i < CAP; ++i)
		if (i < r)
			dst[i] = (char)ND_U8();
	return r;
}
int LZ4_compress_default(const char *src, char *dst, int srcSize, int dstCapacity) { (void)src; return lz4_model(dst, srcSize, dstCapacity); }
int LZ4_compress_HC(const char *src, char *dst, int srcSize, int dstCapacity, int level) { (void)src; (void)level; return lz4_model(dst, srcSize, dstCapacity); }
int LZ4_decompress_safe(const char *src, char *dst, int compressedSize, int dstCapacity)
{
	int r = ND_I32();
	(void)src; (void)compressedSize;
	VP_ASSUME(r <= dstCapacity);
	for (int i = 0; i < CAP; ++i)
		if (i < r)
			dst[i] = (char)ND_U8();
	return r;
}
#include "lib/sqfs/src/comp/lz4.c"
static lz4_compressor_t OBJ;
#define COMP_FN lz4_comp_block
#define UNCOMP_FN lz4_uncomp_block
#elif KIND == 3
#include <zlib.h>
/* zlib model: Z_FINISH either completes (Z_STREAM_END, total_out = bytes
   written <= avail_out), runs out of output space (Z_OK / Z_BUF_ERROR) or
   fails; reset / params may fail */
static int z_step(z_streamp s)
{
	unsigned r = ND_U32(); int k = ND_I32();
	VP_ASSUME(r <= s->avail_out);
	VP_ASSUME(k >= 0 && k <= 3);
	for (int i = 0; i < CAP; ++i) if ((unsigned)i < r) s->next_out[i] = ND_U8();
	s->total_out = r; s->avail_out -= r;
	return k == 0 ? Z_STREAM_END : k == 1 ? Z_OK : k == 2 ? Z_BUF_ERROR : Z_DATA_ERROR;
}
int deflate(z_streamp s, int f) { VP_ASSERT(f == Z_FINISH, "one-shot block compression"); return z_step(s); }
int inflate(z_streamp s, int f) { (void)f; return z_step(s); }
int deflateReset(z_streamp s) { s->total_out = 0; return ND_BOOL() ? Z_STREAM_ERROR : Z_OK; }
int inflateReset(z_streamp s) { s->total_out = 0; return ND_BOOL() ? Z_STREAM_ERROR : Z_OK; }
int deflateParams(z_streamp s, int l, int st) { (void)s; (void)l; (void)st; return ND_BOOL() ? Z_STREAM_ERROR : Z_OK; }
int deflateEnd(z_streamp s) { (void)s; return Z_OK; }
int inflateEnd(z_streamp s) { (void)s; return Z_OK; }
int deflateInit2_(z_streamp s, int l, int m, int w, int ml, int st, const char *v, int sz) { (void)s; (void)l; (void)m; (void)w; (void)ml; (void)st; (void)v; (void)sz; return Z_OK; }
int inflateInit_(z_streamp s, const char *v, int sz) { (void)s; (void)v; (void)sz; return Z_OK; }
#include "lib/sqfs/src/comp/gzip.c"
static gzip_compressor_t OBJ;
static sqfs_s32 gz_comp(sqfs_compressor_t *c, const sqfs_u8 *in, sqfs_u32 size, sqfs_u8 *out, sqfs_u32 outsize) { OBJ.compress = true; return gzip_do_block(c, in, size, out, outsize); }
static sqfs_s32 gz_uncomp(sqfs_compressor_t *c, const sqfs_u8 *in, sqfs_u32 size, sqfs_u8 *out, sqfs_u32 outsize) { OBJ.compress = false; return gzip_do_block(c, in, size, out, outsize); }
#define COMP_FN gz_comp
#define UNCOMP_FN gz_uncomp
#elif KIND == 4
#include <lzma.h>
lzma_bool lzma_lzma_preset(lzma_options_lzma *o, uint32_t p) { (void)p; memset(o, 0, sizeof(*o)); return ND_BOOL(); }
lzma_ret lzma_stream_buffer_encode(lzma_filter *f, lzma_check c, const lzma_allocator *a, const uint8_t *in, size_t in_size, uint8_t *out, size_t *out_pos, size_t out_size)
{
	size_t r = ND_U64(); int k = ND_I32();
	(void)f; (void)c; (void)a; (void)in; (void)in_size;
	VP_ASSUME(k >= 0 && k <= 2);
	if (k == 1) return LZMA_BUF_ERROR;
	if (k == 2) return LZMA_MEM_ERROR;
	VP_ASSUME(r <= out_size - *out_pos);
	for (int i = 0; i < CAP; ++i) if ((size_t)i < r) out[*out_pos + i] = ND_U8();
	*out_pos += r;
	return LZMA_OK;
}
lzma_ret lzma_stream_buffer_decode(uint64_t *memlimit, uint32_t flags, const lzma_allocator *a, const uint8_t *in, size_t *in_pos, size_t in_size, uint8_t *out, size_t *out_pos, size_t out_size)
{
	size_t r = ND_U64(), c = ND_U64(); int k = ND_I32();
	(void)memlimit; (void)flags; (void)a; (void)in;
	VP_ASSUME(k >= 0 && k <= 2);
	VP_ASSUME(r <= out_size - *out_pos && c <= in_size - *in_pos);
	for (int i = 0; i < CAP; ++i) if ((size_t)i < r) out[*out_pos + i] = ND_U8();
	*out_pos += r; *in_pos += c;
	return k == 0 ? LZMA_OK : k == 1 ? LZMA_BUF_ERROR : LZMA_DATA_ERROR;
}
#include <string.h>
#include "lib/sqfs/src/comp/xz.c"
static xz_compressor_t OBJ;
#define COMP_FN xz_comp_block
#define UNCOMP_FN xz_uncomp_block
#else
#include <zstd.h>
#include <zstd_errors.h>
static size_t last_zstd;
size_t ZSTD_compressCCtx(ZSTD_CCtx *c, void *dst, size_t dstCapacity, const void *src, size_t srcSize, int level)
{
	size_t r = ND_U64();
	(void)c; (void)src; (void)srcSize; (void)level;
	/* either an error code (top of the range) or bytes written <= dstCapacity */
	VP_ASSUME(r <= dstCapacity || r > (size_t)-(size_t)ZSTD_error_maxCode);
	for (int i = 0; i < CAP; ++i)
		if ((size_t)i < r && r <= dstCapacity)
			((char *)dst)[i] = (char)ND_U8();
	last_zstd = r;
	return r;
}
size_t ZSTD_decompress(void *dst, size_t dstCapacity, const void *src, size_t n)
{
	size_t r = ND_U64();
	(void)src; (void)n;
	VP_ASSUME(r <= dstCapacity || r > (size_t)-(size_t)ZSTD_error_maxCode);
	for (int i = 0; i < CAP; ++i)
		if ((size_t)i < r && r <= dstCapacity)
			((char *)dst)[i] = (char)ND_U8();
	return r;
}
unsigned ZSTD_isError(size_t code) { return code > (size_t)-(size_t)ZSTD_error_maxCode; }
ZSTD_ErrorCode ZSTD_getErrorCode(size_t code) { return ZSTD_isError(code) ? (ZSTD_ErrorCode)(0 - code) : ZSTD_error_no_error; }
#include "lib/sqfs/src/comp/zstd.c"
static zstd_compressor_t OBJ;
#define COMP_FN zstd_comp_block
#define UNCOMP_FN zstd_uncomp_block
#endif

void harness(void)
{
	sqfs_u8 in[CAP], out[CAP];
	sqfs_u32 size = ND_U32(), outsize = ND_U32();
	sqfs_s32 r;

	VP_ASSUME(size >= 1 && size <= CAP && outsize <= CAP);
	for (int i = 0; i < CAP; ++i)
		in[i] = ND_U8();
#if KIND == 1
	OBJ.high_compression = ND_BOOL();
#elif KIND == 3
	OBJ.opt.strategies = ND_U16() & SQFS_COMP_FLAG_GZIP_ALL; OBJ.opt.level = 9;
#elif KIND == 4
	OBJ.flags = ND_U16() & SQFS_COMP_FLAG_XZ_ALL; OBJ.level = 6;
#endif
	if (ND_BOOL()) {
		r = COMP_FN((sqfs_compressor_t *)&OBJ, in, size, out, outsize);
		VP_ASSERT(r <= 0 || ((sqfs_u32)r < size && (sqfs_u32)r <= outsize),
			  "C03: compressing do_block returns <0, 0, or a size strictly smaller than the input (never a block that grew)");
		if (r > 0)
			VP_REACH("compressed");
		else if (r == 0)
			VP_REACH("not_smaller");
		else
			VP_REACH("error");
	} else {
		r = UNCOMP_FN((sqfs_compressor_t *)&OBJ, in, size, out, outsize);
		VP_ASSERT(r < 0 || (sqfs_u32)r <= outsize, "uncompressing do_block never reports more bytes than the output buffer holds");
		VP_REACH("uncompress");
	}
}
