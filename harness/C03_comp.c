/*
 * C03 O-4: compressor wrapper contract (include/sqfs/compressor.h): when
 * compressing, do_block returns a negative error, 0 ("did not shrink, store
 * uncompressed"), or a size that is STRICTLY smaller than the input and not
 * larger than the output buffer.  The block processor / meta writer rely on
 * this: "no stored block is larger than its uncompressed size".
 *
 * real code: lib/sqfs/src/comp/lz4.c (KIND 1) or zstd.c (KIND 2), #included
 * env: contract stubs of the codec library entry points: they may return any
 *      value their documentation allows and write that many bytes.
 */
#include "vp.h"
#include <stddef.h>
#ifndef KIND
#define KIND 1
#endif
#ifndef CAP
#define CAP 8
#endif

#if KIND == 1
#include <lz4.h>
#include <lz4hc.h>
static int lz4_model(char *dst, int srcSize, int dstCapacity)
{
	/* LZ4_compress_default/HC: number of bytes written into dst (<= dstCapacity)
	   or 0 if the compression fails; never more than LZ4_COMPRESSBOUND(srcSize) */
	int r = ND_I32();
	VP_ASSUME(r >= 0 && r <= dstCapacity && r <= LZ4_COMPRESSBOUND(srcSize));
	for (int i = 0; i < CAP; ++i)
		if (i < r)
			dst[i] = (char)ND_U8();
	return r;
}
int LZ4_compress_default(const char *src, char *dst, int srcSize, int dstCapacity) { (void)src; return lz4_model(dst, srcSize, dstCapacity); }
int LZ4_compress_HC(const char *src, char *dst, int srcSize, int dstCapacity, int level) { (void)src; (void)level; return lz4_model(dst, srcSize, dstCapacity); }
int LZ4_decompress_safe(const char *src, char *dst, int compressedSize, int dstCapacity)
{
	int r = ND_I32();
	(void)src; (void)compressedSize;
	VP_ASSUME(r <= dstCapacity);
	for (int i = 0; i < CAP; ++i)
		if (i < r)
			dst[i] = (char)ND_U8();
	return r;
}
#include "lib/sqfs/src/comp/lz4.c"
static lz4_compressor_t OBJ;
#define COMP_FN lz4_comp_block
#define UNCOMP_FN lz4_uncomp_block
#else
#include <zstd.h>
#include <zstd_errors.h>
static size_t last_zstd;
size_t ZSTD_compressCCtx(ZSTD_CCtx *c, void *dst, size_t dstCapacity, const void *src, size_t srcSize, int level)
{
	size_t r = ND_U64();
	(void)c; (void)src; (void)srcSize; (void)level;
	/* either an error code (top of the range) or bytes written <= dstCapacity */
	VP_ASSUME(r <= dstCapacity || r > (size_t)-(size_t)ZSTD_error_maxCode);
	for (int i = 0; i < CAP; ++i)
		if ((size_t)i < r && r <= dstCapacity)
			((char *)dst)[i] = (char)ND_U8();
	last_zstd = r;
	return r;
}
size_t ZSTD_decompress(void *dst, size_t dstCapacity, const void *src, size_t n)
{
	size_t r = ND_U64();
	(void)src; (void)n;
	VP_ASSUME(r <= dstCapacity || r > (size_t)-(size_t)ZSTD_error_maxCode);
	for (int i = 0; i < CAP; ++i)
		if ((size_t)i < r && r <= dstCapacity)
			((char *)dst)[i] = (char)ND_U8();
	return r;
}
unsigned ZSTD_isError(size_t code) { return code > (size_t)-(size_t)ZSTD_error_maxCode; }
ZSTD_ErrorCode ZSTD_getErrorCode(size_t code) { return ZSTD_isError(code) ? (ZSTD_ErrorCode)(0 - code) : ZSTD_error_no_error; }
#include "lib/sqfs/src/comp/zstd.c"
static zstd_compressor_t OBJ;
#define COMP_FN zstd_comp_block
#define UNCOMP_FN zstd_uncomp_block
#endif

void harness(void)
{
	sqfs_u8 in[CAP], out[CAP];
	sqfs_u32 size = ND_U32(), outsize = ND_U32();
	sqfs_s32 r;

	VP_ASSUME(size >= 1 && size <= CAP && outsize <= CAP);
	for (int i = 0; i < CAP; ++i)
		in[i] = ND_U8();
#if KIND == 1
	OBJ.high_compression = ND_BOOL();
#endif
	if (ND_BOOL()) {
		r = COMP_FN((sqfs_compressor_t *)&OBJ, in, size, out, outsize);
		VP_ASSERT(r <= 0 || ((sqfs_u32)r < size && (sqfs_u32)r <= outsize),
			  "C03: compressing do_block returns <0, 0, or a size strictly smaller than the input (never a block that grew)");
		if (r > 0)
			VP_REACH("compressed");
		else if (r == 0)
			VP_REACH("not_smaller");
		else
			VP_REACH("error");
	} else {
		r = UNCOMP_FN((sqfs_compressor_t *)&OBJ, in, size, out, outsize);
		VP_ASSERT(r < 0 || (sqfs_u32)r <= outsize, "uncompressing do_block never reports more bytes than the output buffer holds");
		VP_REACH("uncompress");
	}
}
