/*
 * C14 O-3: the table writers only ever APPEND to the image - they never touch
 * the superblock at bytes [0,96) nor any earlier byte - so that the only
 * writer of the superblock is sqfs_writer_finish()/sqfs_writer_init().
 * real code: lib/sqfs/src/id_table.c (sqfs_id_table_write), frag_table.c
 *            (sqfs_frag_table_write), write_table.c, meta_writer.c (block size
 *            scaled), array.c, alloc.c
 * env: memfile with write log, compressor stub that never shrinks.
 */
#define VP_IMG 160
#define VP_MAXIO 24
#define VP_WLOG 12
#include "vp_sqfs_stubs.h"
#include "sqfs/id_table.h"
#include "sqfs/frag_table.h"
#include "sqfs/super.h"
#ifndef KIND
#define KIND 1
#endif
#ifndef NENT
#define NENT 2
#endif

static sqfs_s32 nc_do_block(sqfs_compressor_t *c, const sqfs_u8 *in, sqfs_u32 size, sqfs_u8 *out, sqfs_u32 outsize)
{ (void)c; (void)in; (void)size; (void)out; (void)outsize; return 0; }

void harness(void)
{
	sqfs_file_t *f = vp_file_init();
	sqfs_compressor_t *c = vp_cmp_init();
	sqfs_super_t super;
	sqfs_u64 size0;
	int ret;

	c->do_block = nc_do_block;
	sqfs_super_init(&super, 4096, 0, SQFS_COMP_GZIP);
	vp_img_size = ND_U64();
	VP_ASSUME(vp_img_size >= 96 && vp_img_size <= 100);
	size0 = vp_img_size;
#if KIND == 1
	{
		sqfs_id_table_t *t = sqfs_id_table_create(0);
		sqfs_u16 idx;
		VP_ASSUME(t != NULL);
		for (int i = 0; i < NENT; ++i)
			VP_ASSUME(sqfs_id_table_id_to_index(t, 1000 + 7 * i, &idx) == 0);	/* id values are irrelevant for where the table is written */
		ret = sqfs_id_table_write(t, f, &super, c);
		VP_ASSERT(ret == 0, "id table written");
		VP_ASSERT(super.id_table_start >= size0 && super.id_table_start < vp_img_size && super.id_count >= 1, "superblock fields point at the new table");
	}
#else
	{
		sqfs_frag_table_t *t = sqfs_frag_table_create(0);
		VP_ASSUME(t != NULL);
		for (int i = 0; i < NENT; ++i)
			VP_ASSUME(sqfs_frag_table_append(t, ND_U64(), ND_U32(), NULL) == 0);
		ret = sqfs_frag_table_write(t, f, &super, c);
		VP_ASSERT(ret == 0, "fragment table written");
		VP_ASSERT(super.fragment_table_start >= size0 && super.fragment_table_start < vp_img_size && super.fragment_entry_count == NENT, "superblock fields point at the new table");
	}
#endif
	VP_ASSERT(vp_wlog_n >= 1 && vp_wlog_n <= VP_WLOG, "write log");
	for (unsigned i = 0; i < VP_WLOG; ++i)
		if (i < vp_wlog_n)
			VP_ASSERT(vp_wlog_off[i] == vp_wlog_size_before[i] && vp_wlog_off[i] >= 96,
				  "C14: a table writer only appends - it never rewrites the superblock or any earlier byte");
	VP_REACH("done");
}
