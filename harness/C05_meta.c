/*
 * C05 O-2 / C10 O-1: the real metadata reader on an ARBITRARY image.
 *
 * real code: lib/sqfs/src/meta_reader.c (SQFS_META_BLOCK_SIZE scaled to
 * VP_META through stubs/vp_pre_meta.h)
 * env: memfile with unconstrained content and size <= VP_IMG, adversarial
 * deterministic compressor stub.
 *
 * MODE 1 (C05): arbitrary start/limit window, seek + read + read:
 *        memory safety, termination of the read loop, position sanity.
 * MODE 2 (C10): history independence.  Reader A: op1 (arbitrary seek, may
 *        fail), optionally an arbitrary read, then seek(b,o)+read(n);
 *        fresh reader F: seek(b,o)+read(n) only.  Status and bytes must agree.
 */
#include "vp_sqfs_stubs.h"
#include "sqfs/meta_reader.h"

#ifndef MODE
#define MODE 1
#endif
#ifndef RD
#define RD 4
#endif

void harness(void)
{
	sqfs_file_t *f = vp_file_init();
	sqfs_compressor_t *c = vp_cmp_init();
	sqfs_u64 start = ND_U64(), limit = ND_U64();
	sqfs_meta_reader_t *a, *fr;
	unsigned char ba[RD], bf[RD];
	sqfs_u64 blk, pos_b;
	size_t off, n, pos_o;
	int ra, rf, r1;

	vp_img_symbolic();

	a = sqfs_meta_reader_create(f, c, start, limit);
	VP_ASSUME(a != NULL);

	blk = ND_U64();
	off = ND_SZ();
	n = ND_SZ();
	VP_ASSUME(n <= RD);

#if MODE == 1
	memset(ba, 0, sizeof(ba));
	ra = sqfs_meta_reader_seek(a, blk, off);
	if (ra == 0) {
		sqfs_meta_reader_get_position(a, &pos_b, &pos_o);
		VP_ASSERT(pos_b == blk && pos_o == off, "position after seek is the requested one");
		VP_ASSERT(blk >= start && blk < limit, "seek accepts only blocks inside [start, limit)");
		ra = sqfs_meta_reader_read(a, ba, n);
		if (ra == 0) {
			VP_REACH("read_ok");
			sqfs_meta_reader_get_position(a, &pos_b, &pos_o);
			VP_ASSERT(pos_o < SQFS_META_BLOCK_SIZE, "offset stays inside a metadata block");
		} else {
			VP_REACH("read_fail");
		}
	} else {
		VP_REACH("seek_fail");
	}
	/* no sqfs_drop here: destroy-hook dispatch is covered by C19 */
#else
	{
		sqfs_u64 blk1 = ND_U64();
		size_t off1 = ND_SZ(), n1 = ND_SZ();
		unsigned char tmp[RD];
		VP_ASSUME(n1 <= RD);

		/* history on A */
		r1 = sqfs_meta_reader_seek(a, blk1, off1);
#if MODE == 3
		if (r1 == 0)
			r1 = sqfs_meta_reader_read(a, tmp, n1);
		{
			sqfs_u64 blk2 = ND_U64();
			size_t off2 = ND_SZ();
			(void)sqfs_meta_reader_seek(a, blk2, off2);
		}
#endif
		(void)tmp; (void)n1;
		ra = sqfs_meta_reader_seek(a, blk, off);
		if (ra == 0)
			ra = sqfs_meta_reader_read(a, ba, n);

		/* fresh reader */
		fr = sqfs_meta_reader_create(f, c, start, limit);
		VP_ASSUME(fr != NULL);
		rf = sqfs_meta_reader_seek(fr, blk, off);
		if (rf == 0)
			rf = sqfs_meta_reader_read(fr, bf, n);

		VP_ASSERT(ra == rf, "C10: status of seek+read does not depend on earlier (also failed) operations");
		if (ra == 0 && rf == 0) {
			for (size_t i = 0; i < RD; ++i) {
				if (i < n)
					VP_ASSERT(ba[i] == bf[i], "C10: bytes returned by seek+read do not depend on earlier operations");
			}
			VP_REACH("both_ok");
			if (r1 != 0)
				VP_REACH("ok_after_failed_op");
		} else {
			VP_REACH("both_fail");
		}
	}
#endif
	(void)pos_b; (void)pos_o; (void)rf; (void)r1; (void)fr; (void)bf;
}
