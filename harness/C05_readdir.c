/*
 * C05 O-4: the directory entry reader on arbitrary directory data.
 * real code: lib/sqfs/src/readdir.c
 * env: metadata reader contract stub (unconstrained bytes / failure on any
 *      call), allocation sizes restricted to names of 1..3 bytes.
 * Post: memory safe; every returned entry is a complete NUL-terminated
 * object; the remaining-size counter strictly decreases on every successful
 * call (=> a directory listing of any announced size is read in finitely
 * many steps, no endless loop on crafted counts); inode number / reference
 * are composed from header and entry as the format says.
 */
#include "vp_meta_stub.h"
#include "sqfs/dir.h"
#include "sqfs/dir_reader.h"
#include "sqfs/inode.h"
#include "sqfs/super.h"
#include <string.h>
#ifndef K
#define K 3
#endif

void harness(void)
{
	sqfs_super_t super;
	sqfs_inode_generic_t ino;
	sqfs_readdir_state_t st;
	int ret;

	memset(&super, 0, sizeof(super));
	memset(&ino, 0, sizeof(ino));
	super.directory_table_start = ND_U64();
	if (ND_BOOL()) {
		ino.base.type = SQFS_INODE_DIR;
		ino.data.dir.start_block = ND_U32(); ino.data.dir.offset = ND_U16(); ino.data.dir.size = ND_U16();
	} else {
		ino.base.type = SQFS_INODE_EXT_DIR;
		ino.data.dir_ext.start_block = ND_U32(); ino.data.dir_ext.offset = ND_U16(); ino.data.dir_ext.size = ND_U32();
	}
	ret = sqfs_readdir_state_init(&st, &super, &ino);
	VP_ASSERT(ret == 0, "directory inodes are accepted");

	for (int k = 0; k < K; ++k) {
		sqfs_dir_node_t *ent = NULL;
		sqfs_u32 inum = 0;
		sqfs_u64 iref = 0;
		size_t before = st.size, ents_before = st.entries;
		sqfs_u32 base = st.inum_base, blk = st.inode_block;
		ret = sqfs_meta_reader_readdir(&vp_meta_obj, &st, &ent, &inum, &iref);
		if (ret != 0) {
			if (ret > 0) {
				VP_ASSERT(st.size == 0 && st.entries == 0, "end of listing resets the cursor");
				VP_REACH("eof");
			} else {
				VP_REACH("error");
			}
			return;
		}
		VP_ASSERT(ent != NULL && VP_R_OK(ent, sizeof(*ent) + ent->size + 2), "entry object holds its name");
		VP_ASSERT(ent->name[ent->size + 1] == '\0', "entry name is NUL terminated");
		VP_ASSERT(st.size < before, "C05: the remaining size strictly decreases with every entry (listing is read in finitely many steps)");
		if (ents_before != 0) {
			VP_ASSERT(inum == base + (sqfs_u32)(int)ent->inode_diff, "inode number = header base + signed 16 bit delta");
			VP_ASSERT(iref == (((sqfs_u64)blk << 16) | ent->offset), "inode reference = header block << 16 | entry offset");
		}
		VP_REACH("entry");
	}
}
