/*
 * C01 (xattr fidelity, input side): xattr_from_path() of gensquashfs
 * (bin/gensquashfs/src/apply_xattr.c, #included) against models of
 * llistxattr()/lgetxattr(): the file carries NK attributes "ka", "kb" with
 * symbolic value lengths 0..2 and symbolic value bytes; either call may fail.
 * Post: every listed attribute reaches the xattr writer exactly once, in
 * order, with exactly its value - also when the value is EMPTY (an empty
 * value is legal, e.g. user.empty=""); a failing call makes the function fail.
 */
#include "vp.h"
#include <stdlib.h>
#include <string.h>
#include <stdio.h>
#include <errno.h>
#include <sys/types.h>
#ifndef NK
#define NK 2
#endif
static int sys_failed;
static size_t vlen[NK]; static unsigned char vbytes[NK][2];
static unsigned added; static int add_fail;
static char seen_key[NK][3]; static size_t seen_len[NK]; static unsigned char seen_val[NK][2];

ssize_t llistxattr(const char *path, char *list, size_t size)
{
	(void)path;
	if (ND_BOOL()) { sys_failed = 1; errno = EIO; return -1; }
	if (list != NULL) { VP_ASSERT(size >= 3 * NK, "list buffer as large as announced"); for (int k = 0; k < NK; ++k) { list[3 * k] = 'k'; list[3 * k + 1] = (char)('a' + k); list[3 * k + 2] = 0; } }
	return 3 * NK;
}
ssize_t lgetxattr(const char *path, const char *name, void *value, size_t size)
{
	int k = name[1] - 'a';
	(void)path;
	VP_ASSERT(name[0] == 'k' && k >= 0 && k < NK && name[2] == 0, "a listed key is queried");
	if (ND_BOOL()) { sys_failed = 1; errno = EIO; return -1; }
	if (value != NULL) { VP_ASSERT(size >= vlen[k], "value buffer as large as announced"); for (size_t i = 0; i < 2; ++i) if (i < vlen[k]) ((unsigned char *)value)[i] = vbytes[k][i]; }
	return (ssize_t)vlen[k];
}
void sqfs_perror(const char *f, const char *a, int c) { (void)f; (void)a; (void)c; }
#include "sqfs/xattr_writer.h"
#include "sqfs/error.h"
int sqfs_xattr_writer_add_kv(sqfs_xattr_writer_t *x, const char *key, const void *value, size_t size)
{
	(void)x;
	VP_ASSERT(added < NK, "at most one call per attribute");
	if (ND_BOOL()) { add_fail = 1; return SQFS_ERROR_ALLOC; }
	seen_key[added][0] = key[0]; seen_key[added][1] = key[1]; seen_key[added][2] = key[2]; seen_len[added] = size;	/* the key lives in the scan's own buffer */
	VP_ASSERT(size <= 2 && (size == 0 || VP_R_OK(value, size)), "value readable");
	for (size_t i = 0; i < 2; ++i) if (i < size) seen_val[added][i] = ((const unsigned char *)value)[i];
	added++;
	return 0;
}
#define main vp_unused_main
#include "bin/gensquashfs/src/apply_xattr.c"
#undef main

void harness(void)
{
	int ret;
	for (int k = 0; k < NK; ++k) { vlen[k] = ND_SZ(); VP_ASSUME(vlen[k] <= 2); vbytes[k][0] = ND_U8(); vbytes[k][1] = ND_U8(); }
	ret = xattr_from_path(NULL, "p");
	VP_ASSERT((ret != 0) == (sys_failed || add_fail), "C13: the scan fails iff a system call or the writer failed");
	if (ret == 0) {
		VP_ASSERT(added == NK, "C01: every attribute the file carries reaches the writer - also one with an empty value");
		for (int k = 0; k < NK; ++k) {
			if ((unsigned)k >= added) break;
			VP_ASSERT(seen_key[k][0] == 'k' && seen_key[k][1] == 'a' + k && seen_len[k] == vlen[k], "C01: key and value length as listed");
			for (size_t i = 0; i < 2; ++i) if (i < vlen[k]) VP_ASSERT(seen_val[k][i] == vbytes[k][i], "C01: value bytes");
		}
		VP_REACH("scanned");
	} else {
		VP_REACH("failed");
	}
}
