/*
 * C19: copies of the id table (KIND 1) and the fragment table (KIND 2):
 * object header initialised, deep independence, equivalence, both release
 * orders without double free / leak / call through NULL.
 *
 * real code: lib/sqfs/src/id_table.c or frag_table.c, lib/util/src/array.c,
 *            sqfs_copy/sqfs_drop/sqfs_object_init (include/sqfs/predef.h)
 */
#include "vp.h"
#include "sqfs/predef.h"
#include "sqfs/id_table.h"
#include "sqfs/frag_table.h"
#include "sqfs/block.h"
#include "sqfs/error.h"
#include <stdlib.h>

#ifndef KIND
#define KIND 1
#endif
#ifndef NENT
#define NENT 2
#endif

void harness(void)
{
	sqfs_u32 v[NENT + 1], w[NENT + 1];
	sqfs_object_t *o, *c;
	unsigned q = ND_U32();
	int ro, rc;
#if KIND == 1
	sqfs_id_table_t *t = sqfs_id_table_create(0), *cp;
	sqfs_u16 idx;
	sqfs_u32 a = 0, b = 0;
	VP_ASSUME(t != NULL);
	for (int i = 0; i < NENT; ++i) {
		v[i] = ND_U32();
		for (int j = 0; j < i; ++j)
			VP_ASSUME(v[j] != v[i]);
		VP_ASSUME(sqfs_id_table_id_to_index(t, v[i], &idx) == 0);
	}
#else
	sqfs_frag_table_t *t = sqfs_frag_table_create(0), *cp;
	sqfs_fragment_t a, b;
	VP_ASSUME(t != NULL);
	for (int i = 0; i < NENT; ++i) {
		v[i] = ND_U32();
		w[i] = ND_U32();
		VP_ASSUME(sqfs_frag_table_append(t, v[i], w[i], NULL) == 0);
	}
#endif
	o = (sqfs_object_t *)t;
	cp = sqfs_copy(t);
	VP_ASSUME(cp != NULL);	/* allocation failure is C13's subject */
	c = (sqfs_object_t *)cp;

	VP_ASSERT(c != o, "copy is a distinct object");
	VP_ASSERT(c->refcount == 1, "copy starts with reference count 1");
	VP_ASSERT(c->destroy != NULL && c->destroy == o->destroy, "copy has the destructor of its kind (release must not jump through NULL)");
	VP_ASSERT(c->copy == o->copy, "copy can itself be copied");
	VP_ASSERT(o->refcount == 1, "copying does not touch the original's reference count");

	/* equivalence on one query */
	VP_ASSUME(q <= NENT);
#if KIND == 1
	ro = sqfs_id_table_index_to_id(t, q, &a);
	rc = sqfs_id_table_index_to_id(cp, q, &b);
	VP_ASSERT(ro == rc && (ro != 0 || a == b), "copy answers a lookup like the original");
	/* independence: mutate the original, the copy must not see it */
	{
		sqfs_u32 fresh = ND_U32();
		for (int i = 0; i < NENT; ++i) VP_ASSUME(fresh != v[i]);
		VP_ASSUME(sqfs_id_table_id_to_index(t, fresh, &idx) == 0);
		VP_ASSERT(idx == NENT, "new id appended to the original");
		VP_ASSERT(sqfs_id_table_index_to_id(cp, NENT, &b) == SQFS_ERROR_OUT_OF_BOUNDS, "a change of the original is invisible in the copy");
		VP_ASSUME(sqfs_id_table_id_to_index(cp, fresh, &idx) == 0);
		VP_ASSUME(sqfs_id_table_id_to_index(cp, fresh + 1, &idx) == 0);
		VP_ASSERT(sqfs_id_table_index_to_id(t, NENT + 1, &a) == SQFS_ERROR_OUT_OF_BOUNDS, "a change of the copy is invisible in the original");
	}
#else
	ro = sqfs_frag_table_lookup(t, q, &a);
	rc = sqfs_frag_table_lookup(cp, q, &b);
	VP_ASSERT(ro == rc && (ro != 0 || (a.start_offset == b.start_offset && a.size == b.size)), "copy answers a lookup like the original");
	VP_ASSUME(sqfs_frag_table_append(t, 7, 9, NULL) == 0);
	VP_ASSERT(sqfs_frag_table_get_size(cp) == NENT, "a change of the original is invisible in the copy");
	if (NENT > 0) {
		VP_ASSUME(sqfs_frag_table_set(cp, 0, 1, 2) == 0);
		VP_ASSERT(sqfs_frag_table_lookup(t, 0, &a) == 0 && a.start_offset == v[0] && a.size == w[0], "a change of the copy is invisible in the original");
	}
#endif
	/* release in either order */
	if (ND_BOOL()) {
		sqfs_drop(t);
		sqfs_drop(cp);
		VP_REACH("orig_first");
	} else {
		sqfs_drop(cp);
		sqfs_drop(t);
		VP_REACH("copy_first");
	}
	(void)v; (void)w;
}
