/*
 * C19: copy of a metadata reader - header, independence of the cached block
 * and cursor, equivalence, both release orders; shared file/compressor are
 * reference counted and survive until the last holder is released.
 * real code: lib/sqfs/src/meta_reader.c (metadata block size scaled)
 */
#include "vp_sqfs_stubs.h"
#include "sqfs/meta_reader.h"
#include "lib/sqfs/src/meta_reader.c"

/*
 * sqfs_drop() on the outer object, spelled out: CBMC cannot resolve the
 * destroy hook of nested objects and would explore a bogus recursion
 * (reader destructor applied to the file object, ...).  The hook value is
 * asserted, then the real destructor runs; inside it sqfs_drop() may only
 * reach the leaf destructors (restricted in the plan).
 */
static void vp_drop_reader(sqfs_meta_reader_t *m)
{
	sqfs_object_t *o = (sqfs_object_t *)m;
	VP_ASSERT(o->refcount == 1 && o->destroy == meta_reader_destroy, "release runs the metadata reader destructor");
	meta_reader_destroy(o);
}

#ifndef RD
#define RD 2
#endif

void harness(void)
{
	sqfs_file_t *f = vp_file_init();
	sqfs_compressor_t *c = vp_cmp_init();
	sqfs_meta_reader_t *a, *b;
	sqfs_object_t *oa, *ob;
	unsigned char x[RD], y[RD];
	sqfs_u64 blk = ND_U64(), blk2 = ND_U64();
	size_t off = ND_SZ(), off2 = ND_SZ();
	int r0, ra, rb;

	vp_img_symbolic();
	a = sqfs_meta_reader_create(f, c, 0, vp_img_size);
	VP_ASSUME(a != NULL);
	r0 = sqfs_meta_reader_seek(a, blk, off);	/* history before the copy: cache may be loaded */

	b = sqfs_copy(a);
	VP_ASSUME(b != NULL);
	oa = (sqfs_object_t *)a;
	ob = (sqfs_object_t *)b;
	VP_ASSERT(ob != oa && ob->refcount == 1 && oa->refcount == 1, "copy is distinct, both hold one reference");
	VP_ASSERT(ob->destroy == oa->destroy && ob->destroy != NULL && ob->copy == oa->copy, "copy has the hooks of its kind");
	VP_ASSERT(f->base.refcount == 3 && c->base.refcount == 3, "shared file and compressor gained one reference each");

	/* operate on the copy only: must not disturb the original's cursor/cache */
	(void)sqfs_meta_reader_seek(b, blk2, off2);
	if (r0 == 0) {
		ra = sqfs_meta_reader_read(a, x, RD);
		/* reference: a second copy taken... no - a fresh reader positioned the same way */
		{
			sqfs_meta_reader_t *fr = sqfs_meta_reader_create(f, c, 0, vp_img_size);
			VP_ASSUME(fr != NULL);
			rb = sqfs_meta_reader_seek(fr, blk, off);
			if (rb == 0)
				rb = sqfs_meta_reader_read(fr, y, RD);
		}
		VP_ASSERT(ra == rb, "operations on the copy do not change what the original answers (status)");
		if (ra == 0) {
			for (int i = 0; i < RD; ++i)
				VP_ASSERT(x[i] == y[i], "operations on the copy do not change what the original answers (bytes)");
			VP_REACH("orig_read_ok");
		}
	}
	if (ND_BOOL()) {
		vp_drop_reader(a);
		VP_ASSERT(vp_file_destroyed == 0 && vp_cmp_destroyed == 0, "shared objects outlive the first release");
		vp_drop_reader(b);
		VP_REACH("orig_first");
	} else {
		vp_drop_reader(b);
		VP_ASSERT(vp_file_destroyed == 0 && vp_cmp_destroyed == 0, "shared objects outlive the first release");
		vp_drop_reader(a);
		VP_REACH("copy_first");
	}
	VP_ASSERT(vp_file_destroyed == 0 && vp_cmp_destroyed == 0 && f->base.refcount >= 1, "the harness' own reference is still there");
}
