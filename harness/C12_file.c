/*
 * C12 O-1: positional file I/O retry loops under arbitrary short counts,
 * EINTR and EIO.  real code: lib/sqfs/src/io/file.c (#included).
 * MODE 1 read_at, MODE 2 write_at.
 */
#ifndef N
#define N 3
#endif
#define VP_DISK (N + 3)
#define VP_XFER_MAX N
#include "vp_syscalls.h"
#include "lib/sqfs/src/io/file.c"

static struct { sqfs_file_stdio_t f; char name[2]; } FW;

void harness(void)
{
	sqfs_file_stdio_t *file = &FW.f;
	unsigned char buf[N], ref[VP_DISK];
	sqfs_u64 off = ND_U64();
	size_t n = ND_SZ(), i, old_size;
	int ret;

	VP_ASSUME(n <= N);
	VP_ASSUME(off <= VP_DISK);
	for (i = 0; i < VP_DISK; ++i)
		vp_disk[i] = ref[i] = ND_U8();
	vp_disk_size = ND_SZ();
	VP_ASSUME(vp_disk_size <= VP_DISK);
	old_size = vp_disk_size;
	file->size = vp_disk_size;
	file->fd = 3;
	file->readonly = false;

#if MODE == 1
	for (i = 0; i < N; ++i) buf[i] = 0;
	ret = stdio_read_at((sqfs_file_t *)file, off, buf, n);
	if (ret == 0) {
		VP_ASSERT(!vp_sys_eio, "an I/O error is never swallowed");
		VP_ASSERT(off + n <= old_size || n == 0, "a read past the end never succeeds (short read is not taken for success)");
		for (i = 0; i < N; ++i)
			if (i < n)
				VP_ASSERT(buf[i] == ref[off + i], "C12: read_at delivers exactly the requested bytes whatever the split");
		if (vp_sys_short > 0 && n > 1)
			VP_REACH("ok_with_short_reads");
		VP_REACH("ok");
	} else {
		VP_ASSERT(vp_sys_eio || off + n > old_size, "read_at fails only on I/O error or end of file (EINTR/short counts are retried)");
		VP_ASSERT(ret == (vp_sys_eio ? SQFS_ERROR_IO : SQFS_ERROR_OUT_OF_BOUNDS) || (vp_sys_eio && off + n > old_size), "error code names the cause");
		VP_REACH("err");
	}
#else
	for (i = 0; i < N; ++i) buf[i] = ND_U8();
	ret = stdio_write_at((sqfs_file_t *)file, off, buf, n);
	if (ret == 0) {
		VP_ASSERT(!vp_sys_eio, "an I/O error is never swallowed");
		for (i = 0; i < N; ++i)
			if (i < n)
				VP_ASSERT(vp_disk[off + i] == buf[i], "C12: write_at stores exactly the given bytes whatever the split");
		for (i = 0; i < VP_DISK; ++i)
			if (i < off || i >= off + n)
				VP_ASSERT(vp_disk[i] == ref[i], "write_at touches nothing outside the range");
		VP_ASSERT(n == 0 || file->size == (off + n > old_size ? off + n : old_size), "file size bookkeeping follows the write");
		if (vp_sys_short > 0 && n > 1)
			VP_REACH("ok_with_short_writes");
		VP_REACH("ok");
	} else {
		VP_ASSERT(vp_sys_eio || off + n > VP_DISK, "write_at fails only on I/O error or a full device");
		VP_REACH("err");
	}
#endif
}
