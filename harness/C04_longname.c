/*
 * C04: long names and link targets in sqfs2tar's writer (lib/tar/src/
 * write_header.c, #included): a name (or symlink target) that does not fit
 * the 100 byte header field WITH its terminator must travel in a GNU 'L'
 * ('K') record in front of the entry; a shorter one must be stored completely
 * in the plain header.  Lengths around the boundary are the shape parameters
 * NAMELEN / TLEN; the name bytes are symbolic (non-NUL).
 * The records are captured from the output stream and decoded by hand.
 */
#include "vp.h"
#include <stdarg.h>
#include <string.h>
#include <stdio.h>
#include <stdlib.h>
#include <sys/stat.h>
#include <sys/sysmacros.h>
#include "tar/format.h"
#ifndef NAMELEN
#define NAMELEN 100
#endif
#ifndef TLEN
#define TLEN 0
#endif

static void put_oct(char *dst, unsigned long v, int width)
{
	for (int k = 0; k < 22; ++k)
		if (k < width)
			dst[k] = (char)('0' + ((v >> (3 * (width - 1 - k))) & 7));
}
static int vp_sprintf(char *dst, const char *fmt, ...)
{
	va_list ap; int pos = 0;
	va_start(ap, fmt);
	if (fmt[0] == '%' && fmt[1] == '0' && fmt[2] == '*') {
		int w = va_arg(ap, int); unsigned long v = va_arg(ap, unsigned long);
		put_oct(dst, v, w); pos = w;
		if (fmt[5] == ' ') dst[pos++] = ' ';
	} else if (fmt[0] == '%' && fmt[1] == '0' && fmt[2] == '6') {
		put_oct(dst, va_arg(ap, unsigned), 6); pos = 6;
	} else if (fmt[0] == '%' && fmt[1] == 'l') {
		(void)va_arg(ap, unsigned long); dst[pos++] = '0';
	} else if (fmt[3] == '/') {
		/* "gnu/name%u", "gnu/data%u", "gnu/target%u", "pax/xattr%u": counter < 10 here */
		for (int k = 0; k < 12; ++k) { if (fmt[k] == '%' || fmt[k] == 0) break; dst[pos++] = fmt[k]; }
		dst[pos++] = (char)('0' + va_arg(ap, unsigned) % 10);
	} else {
		VP_ASSERT(0, "sprintf format not modelled");
	}
	dst[pos] = 0;
	va_end(ap);
	return pos;
}
#define sprintf vp_sprintf
#define tar_compute_checksum(h) (0u)	/* checksum is the subject of the header round trip obligations */
#include "lib/tar/src/write_header.c"
#undef sprintf

#define MAXREC 6
static unsigned nrec;
static unsigned char kind[MAXREC];	/* 1 header, 2 payload */
static tar_header_t HDR[MAXREC];
static size_t paylen[MAXREC];
static const void *payptr[MAXREC];
static int cap_append(sqfs_ostream_t *s, const void *d, size_t n)
{
	(void)s;
	VP_ASSERT(nrec < MAXREC, "record log");
	if (n == sizeof(tar_header_t) && (((const tar_header_t *)d)->magic[0] == 'u')) { kind[nrec] = 1; memcpy(&HDR[nrec], d, sizeof(tar_header_t)); }
	else { kind[nrec] = 2; paylen[nrec] = n; payptr[nrec] = d; }
	nrec++;
	return 0;
}
static unsigned padded; static sqfs_u64 padded_size;
int padd_file(sqfs_ostream_t *fp, sqfs_u64 size) { (void)fp; padded++; padded_size = size; return 0; }
void sqfs_perror(const char *f, const char *a, int c) { (void)f; (void)a; (void)c; }

static struct { sqfs_dir_entry_t e; char name[NAMELEN + 8]; } ENT;
static char TGT[TLEN + 2];

static sqfs_u64 oct(const char *f, int n) { sqfs_u64 v = 0; for (int i = 0; i < 12; ++i) if (i < n && f[i] >= '0' && f[i] <= '7') v = (v << 3) | (sqfs_u64)(f[i] - '0'); return v; }

void harness(void)
{
	sqfs_ostream_t out;
	char *nm = (char *)ENT.e.name;
	unsigned last;
	int ret;

	memset(&out, 0, sizeof(out));
	out.append = cap_append;
	for (int i = 0; i < NAMELEN; ++i) { nm[i] = (char)ND_U8(); VP_ASSUME(nm[i] != 0); }
	nm[NAMELEN] = 0;
	for (int i = 0; i < TLEN; ++i) { TGT[i] = (char)ND_U8(); VP_ASSUME(TGT[i] != 0); }
	TGT[TLEN] = 0;
#ifdef SOCKET
	/* an entry type tar cannot represent: the caller skips it, so NOTHING may
	   have been written for it (an orphaned long-name / xattr record would be
	   taken for the next member's) */
	ENT.e.mode = S_IFSOCK | 0644;
	ENT.e.uid = 1; ENT.e.gid = 2; ENT.e.mtime = 3;
	ret = write_tar_header(&out, &ENT.e, NULL, NULL, 0);
	VP_ASSERT(ret != 0, "a socket cannot be stored in a tar archive");
	VP_ASSERT(nrec == 0, "C04: an entry that is refused leaves no record behind (no orphaned GNU long-name / PAX record in front of the next member)");
	VP_REACH("refused");
	return;
#endif
	ENT.e.mode = (TLEN ? S_IFLNK | 0777 : S_IFDIR | 0755);
	ENT.e.size = TLEN;
	ENT.e.uid = 1; ENT.e.gid = 2; ENT.e.mtime = 3;

	ret = write_tar_header(&out, &ENT.e, TLEN ? TGT : NULL, NULL, 0);
	VP_ASSERT(ret == 0 && nrec >= 1, "entry written");
	last = nrec - 1;
	VP_ASSERT(kind[last] == 1, "the entry's own header comes last");

	if (NAMELEN < 100) {
		VP_ASSERT(HDR[last].name[NAMELEN] == 0 && memcmp(HDR[last].name, nm, NAMELEN) == 0, "C04: a name that fits is stored completely (and terminated) in the header");
		VP_REACH("short_name");
	} else {
		/* some record pair before the last header must be  'L' header + payload = full name */
		int found = 0;
		for (unsigned k = 0; k + 1 < MAXREC; ++k)
			if (k + 1 < last && kind[k] == 1 && HDR[k].typeflag == TAR_TYPE_GNU_PATH && kind[k + 1] == 2 &&
			    paylen[k + 1] == NAMELEN && payptr[k + 1] == (const void *)nm && oct(HDR[k].size, 11) == NAMELEN)
				found = 1;
		VP_ASSERT(found, "C04: a name of 100 bytes or more travels completely in a GNU long-name record in front of the entry (never truncated)");
		VP_ASSERT(HDR[last].name[0] == 'g' && HDR[last].name[8] == '0' && HDR[last].name[9] == 0, "the entry itself carries the placeholder name");
		VP_REACH("long_name");
	}
	if (TLEN) {
		VP_ASSERT(HDR[last].typeflag == TAR_TYPE_SLINK, "symlink record");
		if (TLEN < 100) {
			VP_ASSERT(memcmp(HDR[last].linkname, TGT, TLEN) == 0 && (TLEN == 100 || HDR[last].linkname[TLEN] == 0), "C04: a target that fits is stored completely in the header");
			VP_REACH("short_target");
		} else {
			int found = 0;
			for (unsigned k = 0; k + 1 < MAXREC; ++k)
				if (k + 1 < last && kind[k] == 1 && HDR[k].typeflag == TAR_TYPE_GNU_SLINK && kind[k + 1] == 2 &&
				    paylen[k + 1] == TLEN && payptr[k + 1] == (const void *)TGT && oct(HDR[k].size, 11) == TLEN)
					found = 1;
			VP_ASSERT(found, "C04: a link target of 100 bytes or more travels completely in a GNU long-link record (never truncated)");
			VP_REACH("long_target");
		}
	}
}
