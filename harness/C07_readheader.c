/*
 * C07: the tar record state machine read_header() with decode_header(),
 * check_version(), is_checksum_valid() (lib/tar/src/read_header.c,
 * #included), read_number as a contract stub (decided on its own in C04), real clear_header /
 * free_sparse_list (cleanup.c), on a stream of up to K records whose 512
 * bytes are ALL symbolic (string fields are either short or completely filled, see shape_field).
 *
 * env: sqfs_istream_read delivers whole records, a short count or an error;
 *      the checksum function is abstracted to an arbitrary value (its result
 *      only gates acceptance, see C04 tar_checksum_ignores_own_field);
 *      record_to_memory / read_pax_header / the sparse readers are contract
 *      stubs: they fail, or hand back heap objects the way the real ones do.
 *
 * Proved: memory safety on every record content, termination within the
 * records available, every heap object obtained on the way is released or
 * handed to the caller exactly once (memory-leak check), and on success the
 * decoded header is usable: a NUL terminated name, a link target for link
 * records, type bits that match the type flag, sizes taken from the record.
 */
#include "vp.h"
#include <stdlib.h>
#include <string.h>
#include <stdio.h>
#include <sys/stat.h>
#include "lib/tar/src/internal.h"

#ifndef K
#define K 2
#endif
static unsigned reads, skips, mem_records, pax_calls;
static int diag;
void sqfs_perror(const char *f, const char *a, int c) { (void)f; (void)a; (void)c; diag++; }
#define fprintf(...) ((void)(diag++))
#define fputs(s, f) ((void)(diag++))
#define perror(s) ((void)(diag++))

static const char *fname(sqfs_istream_t *s) { (void)s; return "in"; }
static unsigned char tflag[K];
/* Record content: every numeric field, the magic/version, type flag and
   checksum bytes are symbolic; a string field is either short (2 symbolic
   bytes, then NULs) or completely filled without terminator (filler 'x') -
   the cases strnlen()/strndup() and the prefix join distinguish; which fields
   are full is the obligation's shape parameter FULL (bit 0 name, 1 linkname,
   2 prefix).  Bytes the reader never looks at (uname, gname, padding) are 0.
   Typed stores instead of a havoc'ed byte slice keep the query tractable and
   every allocation size in a small constant set. */
#ifndef FULL
#define FULL 0
#endif
static void fill_str(char *f, size_t n, int full)
{
	for (size_t i = 0; i < 155; ++i)
		if (i < n)
			f[i] = full ? 'x' : (i < 2 ? (char)ND_U8() : 0);
}
static void fill_num(char *f, size_t n)
{
	for (size_t i = 0; i < 12; ++i)
		if (i < n)
			f[i] = (char)ND_U8();
}
sqfs_s32 sqfs_istream_read(sqfs_istream_t *s, void *data, size_t size)
{
	tar_header_t *h = data;
	(void)s;
	VP_ASSERT(size == sizeof(tar_header_t) && VP_W_OK(data, size), "a whole record is requested into a record sized buffer");
	if (reads >= K)
		return 0;			/* end of stream */
	reads++;
	if (ND_BOOL())
		return SQFS_ERROR_IO;
	if (ND_BOOL())
		return (sqfs_s32)(ND_U32() % 512);	/* truncated archive */
	memset(h, 0, sizeof(*h));
	fill_str(h->name, sizeof(h->name), FULL & 1);
	fill_str(h->linkname, sizeof(h->linkname), FULL & 2);
	fill_str(h->tail.posix.prefix, sizeof(h->tail.posix.prefix), FULL & 4);
	fill_num(h->mode, sizeof(h->mode)); fill_num(h->uid, sizeof(h->uid)); fill_num(h->gid, sizeof(h->gid));
	fill_num(h->size, sizeof(h->size)); fill_num(h->mtime, sizeof(h->mtime)); fill_num(h->chksum, sizeof(h->chksum));
	fill_num(h->magic, sizeof(h->magic)); fill_num(h->version, sizeof(h->version));
	fill_num(h->devmajor, sizeof(h->devmajor)); fill_num(h->devminor, sizeof(h->devminor));
	h->typeflag = (char)ND_U8();
	tflag[reads - 1] = h->typeflag;
	return 512;
}
int sqfs_istream_skip(sqfs_istream_t *s, sqfs_u64 size) { (void)s; (void)size; skips++; return ND_BOOL() ? SQFS_ERROR_IO : 0; }
unsigned int tar_compute_checksum(const tar_header_t *h) { (void)h; return ND_U32(); }
/* contract stub: the numeric field decoder is decided on its own for every
   field content (C04 tar_number_untrusted_w8/w12: memory safe, result or
   error); here it delivers any value or an error, which is a superset */
int read_number(const char *str, int digits, sqfs_u64 *out)
{
	VP_ASSERT(VP_R_OK(str, (size_t)digits) && (digits == 8 || digits == 12), "numeric field decoder is given a whole header field");
	if (ND_BOOL()) { diag++; return -1; }	/* the real one prints "numeric overflow parsing tar header" */
	*out = ND_U64();
	return 0;
}
/* over-approximation: any record may be taken for an all-zero one (the real
   test is a 512 byte scan; its answer only selects between "skip this record"
   and "parse it", both of which are explored for every content) */
bool is_memory_zero(const void *blob, size_t size) { (void)blob; (void)size; return ND_BOOL(); }
char *record_to_memory(sqfs_istream_t *fp, size_t size)
{
	char *b;
	(void)fp;
	VP_ASSERT(size >= 1 && size <= (TAR_MAX_PATH_LEN > TAR_MAX_SYMLINK_LEN ? TAR_MAX_PATH_LEN : TAR_MAX_SYMLINK_LEN), "C07: long name / link records are size limited before they are read into memory");
	if (ND_BOOL()) { diag++; return NULL; }
	b = malloc(3);
	VP_ASSUME(b != NULL);
	b[0] = (char)ND_U8(); b[1] = (char)ND_U8(); b[2] = 0;
	mem_records++;
	return b;
}
int read_pax_header(sqfs_istream_t *fp, sqfs_u64 entsize, unsigned int *set_by_pax, tar_header_decoded_t *out)
{
	(void)fp;
	VP_ASSERT(entsize >= 1 && entsize <= TAR_MAX_PAX_LEN, "C07: PAX records are size limited before they are parsed");
	VP_ASSERT(out->name == NULL && out->link_target == NULL && out->sparse == NULL && out->xattr == NULL, "the header is cleared before a PAX record is applied");
	pax_calls++;
	if (ND_BOOL()) { diag++; return -1; }
	*set_by_pax = ND_U32() & (PAX_SIZE | PAX_UID | PAX_GID | PAX_DEV_MAJ | PAX_DEV_MIN | PAX_MTIME | PAX_NAME | PAX_SLINK_TARGET | PAX_SPARSE_GNU_1_X);
	if (*set_by_pax & PAX_NAME) { out->name = malloc(2); VP_ASSUME(out->name != NULL); out->name[0] = 'p'; out->name[1] = 0; }
	if (*set_by_pax & PAX_SLINK_TARGET) { out->link_target = malloc(2); VP_ASSUME(out->link_target != NULL); out->link_target[0] = 'q'; out->link_target[1] = 0; }
	if (*set_by_pax & PAX_SIZE) out->record_size = ND_U64();
	return 0;
}
static sparse_map_t *mk_sparse(void)
{
	sparse_map_t *m;
	if (ND_BOOL()) { diag++; return NULL; }
	m = calloc(1, sizeof(*m));
	VP_ASSUME(m != NULL);
	return m;
}
sparse_map_t *read_gnu_old_sparse(sqfs_istream_t *fp, tar_header_t *hdr) { (void)fp; (void)hdr; return mk_sparse(); }
sparse_map_t *read_gnu_new_sparse(sqfs_istream_t *fp, tar_header_decoded_t *out) { (void)fp; (void)out; return mk_sparse(); }
void sqfs_xattr_list_free(sqfs_xattr_t *l) { VP_ASSERT(l == NULL, "no xattr list in this harness"); }
#if VP_CBMC
/* CBMC has no models of strnlen / strndup */
size_t strnlen(const char *s, size_t n)
{
	size_t l = 0;
	while (l < n && s[l] != 0) ++l;
	return l;
}
char *strndup(const char *s, size_t n)
{
	size_t l = 0; char *r;
	while (l < n && s[l] != 0) ++l;
	r = malloc(l + 1);
	if (r == NULL) return NULL;
	for (size_t k = 0; k < 100; ++k) if (k < l) r[k] = s[k];
	r[l] = 0;
	return r;
}
#endif

#include "lib/tar/src/read_header.c"

void harness(void)
{
	static sqfs_istream_t IN;
	tar_header_decoded_t out;
	int ret;

	IN.get_filename = fname;
	ret = read_header(&IN, &out);

	VP_ASSERT(ret == 0 || ret == 1 || ret == -1, "result is entry / end of archive / error");
	VP_ASSERT(reads <= K, "C07: the function consumes at most the records the stream holds (terminates)");
	if (ret == 0) {
		unsigned char tf = tflag[reads - 1];
		VP_ASSERT(out.name != NULL, "C07: a decoded entry always has a name");
#if VP_CBMC
		VP_ASSERT(__CPROVER_OBJECT_SIZE(out.name) >= 1 && __CPROVER_OBJECT_SIZE(out.name) <= 257 && out.name[__CPROVER_OBJECT_SIZE(out.name) - 1] == 0, "name is NUL terminated within name+prefix");
#endif
		if (tf == TAR_TYPE_LINK || tf == TAR_TYPE_SLINK)
#if VP_CBMC
			VP_ASSERT(out.link_target != NULL && __CPROVER_OBJECT_SIZE(out.link_target) <= 101 && out.link_target[__CPROVER_OBJECT_SIZE(out.link_target) - 1] == 0, "C07: link records always carry a NUL terminated target");
#else
			VP_ASSERT(out.link_target != NULL, "C07: link records always carry a NUL terminated target");
#endif
		VP_ASSERT(out.is_hard_link == (tf == TAR_TYPE_LINK), "hard link flag follows the type flag");
		if (tf == TAR_TYPE_DIR) VP_ASSERT(S_ISDIR(out.mode), "type bits follow the type flag");
		if (tf == TAR_TYPE_SLINK) VP_ASSERT(S_ISLNK(out.mode), "type bits follow the type flag");
		if (tf == TAR_TYPE_FILE || tf == 0 || tf == TAR_TYPE_GNU_SPARSE) VP_ASSERT(S_ISREG(out.mode), "type bits follow the type flag");
		VP_ASSERT(out.sparse != NULL || out.actual_size == out.record_size, "without a sparse map the file size is the record size");
		VP_ASSERT(tf != TAR_TYPE_GNU_SLINK && tf != TAR_TYPE_GNU_PATH && tf != TAR_TYPE_PAX && tf != TAR_TYPE_PAX_GLOBAL, "extension records are never returned as entries");
		VP_REACH("entry");
		clear_header(&out);
	} else {
		VP_ASSERT(out.name == NULL && out.link_target == NULL && out.sparse == NULL && out.xattr == NULL, "C07: on error / end of archive nothing is left in the header (no leak, no dangling pointer)");
		if (ret < 0) { VP_ASSERT(diag >= 1, "C13: a rejected archive is diagnosed"); VP_REACH("error"); } else VP_REACH("eof");
	}
}
