/*
 * C08 O-1b: check_file_range_equal() says "equal" exactly when the two file
 * ranges hold the same bytes, for every split of the comparison into scratch
 * buffer sized chunks (the production call uses an 8 KiB scratch buffer; the
 * chunking loop only runs more than once for runs > 4 KiB, so it is exercised
 * here with a scratch buffer of SCR bytes).
 * real code: lib/util/src/file_cmp.c
 */
#ifndef SCR
#define SCR 4
#endif
#ifndef LEN
#define LEN 5
#endif
#define VP_IMG (2 * LEN + 2)
#define VP_MAXIO (SCR / 2)
#include "vp_sqfs_stubs.h"
#include "util/util.h"

void harness(void)
{
	sqfs_file_t *f = vp_file_init();
	unsigned char scratch[SCR];
	sqfs_u64 a = ND_U64(), b = ND_U64(), size = ND_U64();
	int ret, equal = 1;

	vp_img_symbolic();
	VP_ASSUME(size <= LEN && a <= VP_IMG && b <= VP_IMG);
	VP_ASSUME(a + size <= vp_img_size && b + size <= vp_img_size);
	for (sqfs_u64 i = 0; i < LEN; ++i)
		if (i < size && vp_img[a + i] != vp_img[b + i])
			equal = 0;
	ret = check_file_range_equal(f, scratch, sizeof(scratch), a, b, size);
	VP_ASSERT(ret == 0 || ret == 1, "no I/O error on ranges inside the file");
	VP_ASSERT((ret == 0) == (equal != 0), "C08: ranges are reported equal exactly when every byte is equal (whole range, not just the first chunk)");
	if (ret == 0 && size > SCR / 2)
		VP_REACH("equal_multi_chunk");
	if (ret == 1)
		VP_REACH("different");
}
