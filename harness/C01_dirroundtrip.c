/*
 * C01 (directory layer): what the directory writer stores, the directory
 * reader reads back - names, inode numbers, inode references and types of
 * NE entries, through the REAL writer (lib/sqfs/src/dir_writer.c, #included)
 * and the REAL reader (lib/sqfs/src/readdir.c), connected by a byte FIFO that
 * stands for the directory table (metadata writer / reader stubs; positions:
 * block address constant, offset = FIFO index).
 * Name lengths are the shape (L0..L3), everything else is symbolic.
 */
#ifndef NE
#define NE 2
#endif
#ifndef NL
#define NL 2
#endif
#ifndef L0
#define L0 1
#endif
#ifndef L1
#define L1 1
#endif
#ifndef L2
#define L2 1
#endif
#ifndef L3
#define L3 1
#endif
#include "vp.h"
#include "sqfs/meta_writer.h"
#include "sqfs/meta_reader.h"
#include "sqfs/dir_reader.h"
#include "sqfs/block.h"
#include "sqfs/error.h"
#include "sqfs/super.h"
#include <sys/stat.h>
#include <string.h>
#include <stdlib.h>

#define LOGSZ (NE * (12 + 8 + NL) + 4)
static unsigned char fifo[LOGSZ];
static size_t fifo_w, fifo_r;
struct sqfs_meta_writer_t { sqfs_object_t base; int dummy; };
struct sqfs_meta_reader_t { sqfs_object_t base; int dummy; };
static struct sqfs_meta_writer_t DM;
static struct sqfs_meta_reader_t MR;
#define BLK 7	/* block address of the listing inside the directory table */

int sqfs_meta_writer_append(sqfs_meta_writer_t *m, const void *data, size_t size)
{
	(void)m;
	VP_ASSERT(fifo_w + size <= LOGSZ && size <= 12 + NL, "harness log large enough");
	for (size_t i = 0; i < 12 + NL; ++i)
		if (i < size)
			fifo[fifo_w + i] = ((const unsigned char *)data)[i];
	fifo_w += size;
	return 0;
}
void sqfs_meta_writer_get_position(const sqfs_meta_writer_t *m, sqfs_u64 *b, sqfs_u32 *o) { (void)m; *b = BLK; *o = (sqfs_u32)fifo_w; }
int sqfs_meta_reader_seek(sqfs_meta_reader_t *m, sqfs_u64 b, size_t o)
{
	(void)m;
	VP_ASSERT(b == BLK + 1000 && o <= fifo_w, "the reader seeks to a position inside the listing (directory table start + block)");
	fifo_r = o;
	return 0;
}
int sqfs_meta_reader_read(sqfs_meta_reader_t *m, void *data, size_t size)
{
	(void)m;
	if (fifo_r + size > fifo_w)
		return SQFS_ERROR_OUT_OF_BOUNDS;
	VP_ASSERT(size <= 12 + NL, "harness copy loop covers the read");
	for (size_t i = 0; i < 12 + NL; ++i)
		if (i < size)
			((unsigned char *)data)[i] = fifo[fifo_r + i];
	fifo_r += size;
	return 0;
}
void sqfs_meta_reader_get_position(const sqfs_meta_reader_t *m, sqfs_u64 *b, size_t *o) { (void)m; *b = BLK + 1000; *o = fifo_r; }

#include "lib/sqfs/src/dir_writer.c"
static sqfs_dir_writer_t DW;

void harness(void)
{
	static const sqfs_u16 types[7] = { S_IFSOCK, S_IFIFO, S_IFLNK, S_IFBLK, S_IFCHR, S_IFDIR, S_IFREG };
	static const size_t shape_len[4] = { L0, L1, L2, L3 };
	char name[NE][NL + 1];
	sqfs_u32 inum[NE];
	sqfs_u64 iref[NE];
	sqfs_u16 mode[NE];
	sqfs_inode_generic_t *ino;
	sqfs_readdir_state_t st;
	sqfs_super_t super;
	size_t e;
	int ret;

	DW.dm = &DM;
	VP_ASSERT(sqfs_dir_writer_begin(&DW, 0) == 0, "begin");
	for (e = 0; e < NE; ++e) {
		unsigned t = ND_U32();
		for (size_t i = 0; i < NL; ++i) {
			name[e][i] = (char)ND_U8();
			if (i < shape_len[e]) VP_ASSUME(name[e][i] != 0); else name[e][i] = 0;
		}
		name[e][NL] = 0;
		inum[e] = ND_U32(); VP_ASSUME(inum[e] >= 1);
		iref[e] = ND_U64(); VP_ASSUME(iref[e] < ((sqfs_u64)1 << 48));
		VP_ASSUME(t < 7);
		mode[e] = types[t] | (ND_U16() & 07777);
		VP_ASSERT(sqfs_dir_writer_add_entry(&DW, name[e], inum[e], iref[e], mode[e]) == 0, "add_entry accepts a valid entry");
	}
	VP_ASSERT(sqfs_dir_writer_end(&DW) == 0, "end");
	ino = sqfs_dir_writer_create_inode(&DW, 0, 0xFFFFFFFF, 1);
	VP_ASSUME(ino != NULL);

	/* ---- read it back with the real reader ---- */
	memset(&super, 0, sizeof(super));
	super.directory_table_start = 1000;
	VP_ASSERT(sqfs_readdir_state_init(&st, &super, ino) == 0, "the inode the writer creates is a directory inode for the reader");
	for (e = 0; e < NE; ++e) {
		sqfs_dir_node_t *ent = NULL;
		sqfs_u32 rnum = 0; sqfs_u64 rref = 0;
		ret = sqfs_meta_reader_readdir(&MR, &st, &ent, &rnum, &rref);
		VP_ASSERT(ret == 0 && ent != NULL, "C01: every entry that was written is read back");
		if (ret != 0 || ent == NULL) return;
		VP_ASSERT((size_t)ent->size + 1 == shape_len[e], "C01: name length survives");
		for (size_t i = 0; i < NL; ++i)
			if (i < shape_len[e])
				VP_ASSERT(ent->name[i] == (sqfs_u8)name[e][i], "C01: name bytes survive, in the order the entries were added");
		VP_ASSERT(ent->name[shape_len[e]] == 0, "name is terminated");
		VP_ASSERT(rnum == inum[e], "C01: inode number survives (header base + 16 bit delta)");
		VP_ASSERT(rref == iref[e], "C01: inode reference survives (header block, entry offset)");
		VP_ASSERT(ent->type == (sqfs_u16)get_type(mode[e]), "C01: entry type survives");
		free(ent);
	}
	{
		sqfs_dir_node_t *ent = NULL; sqfs_u32 rnum; sqfs_u64 rref;
		ret = sqfs_meta_reader_readdir(&MR, &st, &ent, &rnum, &rref);
		VP_ASSERT(ret > 0 && ent == NULL, "C01: the listing ends exactly after the entries that were written (size field is exact)");
	}
	VP_REACH("roundtrip");
}
