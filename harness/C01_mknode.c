/*
 * C01 (unrepresentable input is refused, never silently altered): the tree
 * node constructor mknode() (lib/fstree/src/fstree.c, #included) for an entry
 * with SYMBOLIC 64 bit owner ids and device number: if a node is created it
 * carries exactly the entry's values; values that do not fit the 32 bit
 * on-disk fields (uid/gid, the 12+20 bit device number encoding) make the
 * call fail.  (tar PAX headers and pack files deliver 64 bit values.)
 */
#include "vp.h"
#include <string.h>
#include <stdlib.h>
#include <errno.h>
#include <sys/stat.h>
#include "lib/fstree/src/fstree.c"

static struct { tree_node_t n; char name[1]; } ROOT;
static fstree_t FS;
void harness(void)
{
	static struct { sqfs_dir_entry_t e; char name[4]; } E;
	unsigned k = ND_U32();
	tree_node_t *n;
	static const sqfs_u16 types[5] = { S_IFREG, S_IFDIR, S_IFCHR, S_IFBLK, S_IFIFO };

	VP_ASSUME(k < 5);
	ROOT.n.name = ROOT.name; ROOT.n.mode = S_IFDIR | 0755; ROOT.n.link_count = 2;
	FS.root = &ROOT.n;
	E.e.mode = types[k] | 0644;
	E.e.uid = ND_U64(); E.e.gid = ND_U64(); E.e.rdev = ND_U64(); E.e.mtime = ND_I64();
	n = mknode(&FS, &ROOT.n, "a", 1, NULL, &E.e);
	if (n != NULL) {
		VP_ASSERT((sqfs_u64)n->uid == E.e.uid && (sqfs_u64)n->gid == E.e.gid, "C01: a node carries exactly the entry's owner and group (ids that do not fit 32 bits are refused, not wrapped)");
		if (S_ISCHR(n->mode) || S_ISBLK(n->mode))
			VP_ASSERT(n->data.devno <= 0xFFFFFFFFu && n->data.devno == E.e.rdev, "C01: a device node carries exactly the entry's device number in the 32 bit on-disk encoding (major <= 4095, minor <= 1048575), larger ones are refused");
		VP_ASSERT(n->mod_time == (E.e.mtime < 0 ? 0 : E.e.mtime > 0xFFFFFFFFLL ? 0xFFFFFFFFu : (sqfs_u32)E.e.mtime), "time stamp clamped");
		VP_REACH("created");
		free(n);
	} else {
		VP_ASSERT(E.e.uid > 0xFFFFFFFFu || E.e.gid > 0xFFFFFFFFu || ((k == 2 || k == 3) && E.e.rdev > 0xFFFFFFFFu), "a representable entry is accepted");
		VP_REACH("refused");
	}
}
