/*
 * C03 O-1 (shape B): the 256-entries-per-header limit.
 * real code: lib/sqfs/src/dir_writer.c (#included: get_conseq_entry_count),
 *            with the PRODUCTION metadata block size.
 * A directory of NENT (> 256) entries that all live in the same inode
 * metadata block with consecutive inode numbers and 1-byte names, so that
 * neither the block rule, nor the 16 bit delta rule, nor the metadata block
 * size rule can end the run: only the count limit can.
 */
#include "vp.h"
#include <string.h>
#ifndef NENT
#define NENT 258
#endif
#include "sqfs/meta_writer.h"
struct sqfs_meta_writer_t { sqfs_object_t base; int d; };
int sqfs_meta_writer_append(sqfs_meta_writer_t *m, const void *d, size_t s) { (void)m; (void)d; (void)s; return 0; }
void sqfs_meta_writer_get_position(const sqfs_meta_writer_t *m, sqfs_u64 *b, sqfs_u32 *o) { (void)m; *b = 0; *o = 0; }
#include "lib/sqfs/src/dir_writer.c"

static struct { sqfs_dir_entry_t e; char name[2]; } E[NENT];

void harness(void)
{
	sqfs_u64 blk = ND_U64();
	sqfs_u32 base = ND_U32(), offset = ND_U32();
	size_t cnt;

	VP_ASSUME(blk < ((sqfs_u64)1 << 32));
	VP_ASSUME(offset < SQFS_META_BLOCK_SIZE);
	for (int i = 0; i < NENT; ++i) {
		E[i].e.next = (i + 1 < NENT) ? &E[i + 1].e : NULL;
		E[i].e.inode_ref = (blk << 16) | (sqfs_u64)(i * 16);
		E[i].e.inode_num = base + (sqfs_u32)i;
		E[i].e.type = SQFS_INODE_FIFO;
		E[i].e.name_len = 1;
		E[i].name[0] = 'a';
	}
	cnt = get_conseq_entry_count(offset, &E[0].e);
	VP_ASSERT(cnt >= 1, "a run has at least one entry");
	VP_ASSERT(cnt <= 256, "C03: a directory header never covers more than 256 entries");
	if (cnt == 256)
		VP_REACH("limit_reached");
}
