/*
 * C03 / C01: directory entry names are limited to 256 bytes on disk (16 bit
 * "size - 1" field, doc/format.adoc; the kernel refuses longer ones):
 * sqfs_dir_writer_add_entry() (lib/sqfs/src/dir_writer.c, #included) accepts
 * a name of exactly 256 bytes and REFUSES one of NAMELEN > 256 bytes instead
 * of storing an entry other readers reject (or, beyond 65536 bytes, one whose
 * length field wraps).
 */
#include "vp.h"
#include <string.h>
#include <stdlib.h>
#include <sys/stat.h>
#include "sqfs/meta_writer.h"
#ifndef NAMELEN
#define NAMELEN 257
#endif
struct sqfs_meta_writer_t { sqfs_object_t base; int d; };
static struct sqfs_meta_writer_t DM;
int sqfs_meta_writer_append(sqfs_meta_writer_t *m, const void *d, size_t n) { (void)m; (void)d; (void)n; return 0; }
void sqfs_meta_writer_get_position(const sqfs_meta_writer_t *m, sqfs_u64 *b, sqfs_u32 *o) { (void)m; *b = 0; *o = 0; }
#include "lib/sqfs/src/dir_writer.c"
static sqfs_dir_writer_t DW;
static char name[NAMELEN + 1];

void harness(void)
{
	int ret;
	DW.dm = &DM;
	for (int i = 0; i < NAMELEN; ++i) name[i] = 'a';
	name[NAMELEN] = 0;
	VP_ASSERT(sqfs_dir_writer_begin(&DW, 0) == 0, "begin");
	ret = sqfs_dir_writer_add_entry(&DW, name, 1 + (ND_U32() & 0xFFFF), ND_U32(), S_IFREG | 0644);
	if (NAMELEN <= 256) {
		VP_ASSERT(ret == 0 && DW.list != NULL && DW.list->name_len == NAMELEN, "C03: a name of up to 256 bytes is accepted and recorded with its length");
		VP_REACH("accepted");
	} else {
		VP_ASSERT(ret != 0 && DW.list == NULL, "C03/C01: a name longer than 256 bytes cannot be represented and is refused, not stored");
		VP_REACH("refused");
	}
}
