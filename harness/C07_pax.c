/*
 * C07: the PAX extended header parser read_pax_header() with find_handler(),
 * apply_handler(), pax_sparse_map(), urldecode() (lib/tar/src/pax_header.c,
 * #included), real parse_uint/parse_int/hex_decode/base64_decode
 * (lib/util/src), real free_sparse_list/clear_header (cleanup.c), on EVERY
 * record content of N bytes.
 * env: record_to_memory hands back the N symbolic bytes plus the terminator
 *      the real one appends; strtol is a small model (optional sign, decimal
 *      digits, leading blanks); sqfs_xattr_create builds the key/value object
 *      the way lib/sqfs/src/xattr does (typed, constant capacity).
 * Post: memory safe, terminates within N records lines, on failure nothing
 * is leaked (memory-leak check after clear_header), on success every string
 * in the decoded header is NUL terminated inside its object.
 */
#include "vp.h"
#include <stdlib.h>
#include <string.h>
#include <stdio.h>
#include <limits.h>
#include "lib/tar/src/internal.h"
#include "sqfs/xattr.h"
#ifndef N
#define N 10
#endif
static int diag;
#define fputs(s, f) ((void)(diag++))
#define perror(s) ((void)(diag++))
void sqfs_perror(const char *f, const char *a, int c) { (void)f; (void)a; (void)c; diag++; }

char *record_to_memory(sqfs_istream_t *fp, size_t size)
{
	char *b;
	(void)fp;
	VP_ASSERT(size == N, "record size");
	if (ND_BOOL()) return NULL;
	b = malloc(N + 1);
	VP_ASSUME(b != NULL);
	for (int i = 0; i < N; ++i) b[i] = (char)ND_U8();
	b[N] = 0;
	return b;
}
#if VP_CBMC
long strtol(const char *s, char **end, int base)
{
	const char *p = s; long v = 0; int neg = 0, any = 0;
	VP_ASSERT(base == 10, "decimal");
	while (*p == ' ' || (*p >= 9 && *p <= 13)) ++p;
	if (*p == '-') { neg = 1; ++p; } else if (*p == '+') ++p;
	while (*p >= '0' && *p <= '9') { if (v < LONG_MAX / 16) v = v * 10 + (*p - '0'); any = 1; ++p; }
	if (end) *end = (char *)(any ? p : s);
	return neg ? -v : v;
}
char *strdup(const char *s)
{
	size_t l = 0; char *r;
	while (l < N && s[l] != 0) ++l;
	r = malloc(N + 1);
	if (r == NULL) return NULL;
	for (size_t k = 0; k < N; ++k) if (k <= l) r[k] = s[k];
	r[l] = 0;
	return r;
}
#endif
/* lib/sqfs/src/xattr: key and value live behind the struct, both NUL terminated */
static unsigned xattrs_made, xattrs_freed;
sqfs_xattr_t *sqfs_xattr_create(const char *key, const sqfs_u8 *value, size_t value_len)
{
	struct { sqfs_xattr_t x; sqfs_u8 d[2 * N + 2]; } *w;
	size_t kl = 0;
	VP_ASSERT(value_len <= N, "value length inside the record");
	while (kl < N && key[kl] != 0) ++kl;
	w = calloc(1, sizeof(*w));
	if (w == NULL) return NULL;
	for (size_t i = 0; i < N; ++i) if (i < kl) w->x.data[i] = (sqfs_u8)key[i];
	w->x.key = (const char *)w->x.data;
	w->x.value = w->x.data + kl + 1;
	for (size_t i = 0; i < N; ++i) if (i < value_len) w->x.data[kl + 1 + i] = value[i];
	w->x.value_len = value_len;
	xattrs_made++;
	return &w->x;
}
void sqfs_xattr_list_free(sqfs_xattr_t *l) { for (int i = 0; i < N; ++i) { sqfs_xattr_t *n; if (l == NULL) break; n = l->next; free(l); xattrs_freed++; l = n; } }

#ifdef FRAMING
/* framing shape: no key is known, so only the record framing of
   read_pax_header() (length prefix, separators, terminators, bounds) runs on
   the symbolic block; the handlers are exercised by the per-handler shapes */
#define strcmp(a, b) (1)
#define strncmp(a, b, n) (1)
#endif
#include "lib/tar/src/pax_header.c"
#ifdef FRAMING
#undef strcmp
#undef strncmp
#endif

#ifdef SPARSEMAP
/* per-handler shape: the "GNU.sparse.map" value parser on every NUL
   terminated string of up to N bytes: memory safe, never leaks a node,
   accepts exactly comma separated lists with an even number of decimal
   numbers, and the resulting list holds the pairs in order */
void harness(void)
{
	char line[N + 1];
	tar_header_decoded_t out;
	int ret;

	memset(&out, 0, sizeof(out));
	for (int i = 0; i < N; ++i) line[i] = (char)ND_U8();
	line[N] = 0;
	if (ND_BOOL()) { out.sparse = calloc(1, sizeof(*out.sparse)); VP_ASSUME(out.sparse != NULL); }	/* a map from an earlier record */
	ret = pax_sparse_map(&out, line);
	if (ret == 0) {
		const sparse_map_t *it = out.sparse;
		int k = 0;
		VP_ASSERT(it != NULL, "an accepted map has at least one region");
		for (int i = 0; i < N; ++i) { if (it == NULL) break; it = it->next; k++; }
		VP_ASSERT(it == NULL && k <= (N + 1) / 4 + 1, "region list is finite and bounded by the text length");
		VP_ASSERT(line[0] >= '0' && line[0] <= '9', "a map starts with a number");
		VP_REACH("parsed");
	} else {
		VP_ASSERT(out.sparse == NULL, "C07: a rejected map leaves no (partial or stale) region list behind");
		VP_ASSERT(diag >= 1, "diagnosed");
		VP_REACH("rejected");
	}
	clear_header(&out);
}
#else
void harness(void)
{
	static sqfs_istream_t IN;
	tar_header_decoded_t out;
	unsigned int set = 0;
	int ret;

	memset(&out, 0, sizeof(out));
	ret = read_pax_header(&IN, N, &set, &out);
	VP_ASSERT(ret == 0 || ret == -1, "result");
	if (ret == 0) {
#if VP_CBMC
		if (out.name != NULL) VP_ASSERT(out.name[__CPROVER_OBJECT_SIZE(out.name) - 1] == 0 || strlen(out.name) < __CPROVER_OBJECT_SIZE(out.name), "path is NUL terminated inside its object");
#endif
		if (set & PAX_NAME) VP_ASSERT(out.name != NULL, "a path record sets the name");
		if (set & PAX_SLINK_TARGET) VP_ASSERT(out.link_target != NULL, "a linkpath record sets the target");
		VP_REACH("parsed");
	} else {
		VP_REACH("rejected");
	}
	clear_header(&out);	/* what read_header() does on every failure and the caller after use: nothing may be left */
	VP_ASSERT(xattrs_freed == xattrs_made, "every xattr object is owned by the header");
}
#endif
