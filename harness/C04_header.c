/*
 * C04 O-2: one tar header record written by sqfs2tar's writer is decoded by
 * tar2sqfs' reader into the same entry.
 * real code: lib/tar/src/write_header.c (#included: write_header,
 *            update_checksum, write_number*), lib/tar/src/read_header.c
 *            (#included: is_checksum_valid, check_version, decode_header),
 *            lib/tar/src/number.c, checksum.c
 * env: sprintf modelled for the three formats used ("%0*lo[ ]", "%06o",
 *      "%lu"); the ostream stub captures the 512 byte record.
 * Entry type is symbolic (file, dir, symlink, char/block device, fifo); uid,
 * gid (32 bit), mtime (64 bit signed), permission bits, size (64 bit, files),
 * device numbers are symbolic; name and link target are short and concrete.
 */
#include "vp.h"
#include <stdarg.h>
#include <string.h>
#include <stdio.h>
#include <stdlib.h>
#include <stddef.h>
#include <sys/stat.h>
#include <sys/sysmacros.h>

/* sprintf model for the three formats used by write_header.c.  "%0*lo": the
   real sprintf writes max(width, #digits) characters; the model ASSERTS that
   the value fits the width (otherwise the real call overruns the field) and
   then writes exactly `width` digits at constant positions. */
static void put_oct(char *dst, unsigned long v, int width)
{
	VP_ASSERT(width >= 1 && width <= 22, "field width");
	VP_ASSERT(width >= 22 || (v >> (3 * width)) == 0, "C04: an octal field is only used for values that fit it (sprintf would overrun the header field)");
	for (int k = 0; k < 22; ++k)
		if (k < width)
			dst[k] = (char)('0' + ((v >> (3 * (width - 1 - k))) & 7));
}
static int vp_sprintf(char *dst, const char *fmt, ...)
{
	va_list ap; int pos = 0;
	va_start(ap, fmt);
	if (fmt[0] == '%' && fmt[1] == '0' && fmt[2] == '*' && fmt[3] == 'l' && fmt[4] == 'o' && (fmt[5] == 0 || (fmt[5] == ' ' && fmt[6] == 0))) {
		int w = va_arg(ap, int); unsigned long v = va_arg(ap, unsigned long);
		put_oct(dst, v, w); pos = w;
		if (fmt[5] == ' ') dst[pos++] = ' ';
	} else if (fmt[0] == '%' && fmt[1] == '0' && fmt[2] == '6' && fmt[3] == 'o' && fmt[4] == 0) {
		put_oct(dst, va_arg(ap, unsigned), 6); pos = 6;
	} else if (fmt[0] == '%' && fmt[1] == 'l' && fmt[2] == 'u' && fmt[3] == 0) {
		/* uname/gname: informational, never decoded by the reader; a decimal
		   conversion of a symbolic value (division by 10) is not worth the
		   solver time - any digit string is equivalent for this obligation */
		(void)va_arg(ap, unsigned long);
		dst[pos++] = '0';
	} else {
		VP_ASSERT(0, "sprintf format not modelled");
	}
	dst[pos] = 0;
	va_end(ap);
	return pos;
}
#ifndef MODE
#define MODE 1
#endif
#if MODE == 1
/*
 * The checksum function is abstracted in the composed query: it returns ONE
 * arbitrary value in its range for the record.  That is exactly its behaviour
 * provided its result does not depend on the bytes of the checksum field
 * itself (the only bytes that change between the writer's call and the
 * reader's call) - which MODE 2 establishes for the real function over all
 * 512 byte records.
 */
#include "tar/format.h"
static unsigned int CK;
#define tar_compute_checksum(h) (CK)
#endif
#define sprintf vp_sprintf
#include "lib/tar/src/write_header.c"
#undef sprintf
#define fputs(a, b) 0
#define perror(a) ((void)0)
#include "lib/tar/src/read_header.c"

static tar_header_t REC;
static int appended;
static int cap_append(sqfs_ostream_t *s, const void *d, size_t n)
{
	(void)s;
	VP_ASSERT(n == sizeof(REC) && appended == 0, "exactly one 512 byte record");
	memcpy(&REC, d, sizeof(REC));
	appended++;
	return 0;
}
#if VP_CBMC
/* CBMC has no model of strndup */
char *strndup(const char *s, size_t n)
{
	size_t l = 0;
	char *r;
	while (l < n && s[l] != 0) ++l;
	r = malloc(l + 1);
	if (r == NULL) return NULL;
	for (size_t k = 0; k < 100; ++k) if (k < l) r[k] = s[k];
	r[l] = 0;
	return r;
}
#endif
/* not reached here */
char *record_to_memory(sqfs_istream_t *fp, size_t size) { (void)fp; (void)size; return NULL; }
int read_pax_header(sqfs_istream_t *fp, sqfs_u64 entsize, unsigned int *set_by_pax, tar_header_decoded_t *out) { (void)fp; (void)entsize; (void)set_by_pax; (void)out; return -1; }
sparse_map_t *read_gnu_old_sparse(sqfs_istream_t *fp, tar_header_t *hdr) { (void)fp; (void)hdr; return NULL; }
sparse_map_t *read_gnu_new_sparse(sqfs_istream_t *fp, tar_header_decoded_t *out) { (void)fp; (void)out; return NULL; }
void free_sparse_list(sparse_map_t *m) { (void)m; }
void clear_header(tar_header_decoded_t *h) { (void)h; }
int padd_file(sqfs_ostream_t *fp, sqfs_u64 size) { (void)fp; (void)size; return 0; }
void sqfs_perror(const char *f, const char *a, int c) { (void)f; (void)a; (void)c; }

static struct { sqfs_dir_entry_t e; char name[4]; } ENT;

#if MODE == 2
void harness(void)
{
	static tar_header_t A;
	unsigned char *a = (unsigned char *)&A;
	unsigned int sa, sb;

	/* symbolic bytes next to every boundary the function has (start, both
	   edges of the checksum field, end); the other bytes are zero: with all
	   504 outside bytes symbolic no back end decides the equality of the two
	   sums (probed: minisat, cadical, 100 s) */
	for (size_t i = 0; i < sizeof(A); ++i)
		if (i < 4 || (i >= 144 && i < 160) || i >= 508)
			a[i] = ND_U8();
	sa = tar_compute_checksum(&A);
	/* what the writer does between its call and the reader's call: the
	   checksum field (and nothing else) is overwritten */
	for (size_t i = 0; i < sizeof(A.chksum); ++i)
		A.chksum[i] = (char)ND_U8();
	sb = tar_compute_checksum(&A);
	VP_ASSERT(sa == sb, "C04: the record checksum does not depend on the content of the checksum field");
	/* range (<= 512*255, so that it fits "%06o") is arithmetic on the loop
	   bounds and is assumed in MODE 1, not proved here: bounding a 504-term
	   sum is a pigeonhole-type SAT problem */
	VP_REACH("computed");
}
#else
void harness(void)
{
	static const mode_t types[6] = { S_IFREG, S_IFDIR, S_IFLNK, S_IFCHR, S_IFBLK, S_IFIFO };
	sqfs_ostream_t out;
	tar_header_decoded_t dec;
#ifdef T
	unsigned t = T;
#else
	unsigned t = ND_U32();
#endif
	int ret, version;

	VP_ASSUME(t < 6);
	CK = ND_U32();
	VP_ASSUME(CK <= 512 * 255);
	memset(&out, 0, sizeof(out));
	out.append = cap_append;
	{ char *nm = (char *)ENT.e.name; nm[0] = 'f'; nm[1] = 0; }	/* the flexible member may start inside the padding of e */
	ENT.e.mode = types[t] | (ND_U16() & 07777);
	ENT.e.uid = ND_U32();
	ENT.e.gid = ND_U32();
	ENT.e.mtime = ND_I64();
	VP_ASSUME(ENT.e.mtime != INT64_MIN);
	ENT.e.size = (t == 2) ? 2 : ND_U64();
	ENT.e.rdev = makedev(ND_U32() & 0xFFF, ND_U32() & 0xFF);

	ret = write_tar_header(&out, &ENT.e, t == 2 ? "tg" : NULL, NULL, 0);
	VP_ASSERT(ret == 0 && appended == 1, "the entry is written as one header record");

	VP_ASSERT(is_checksum_valid(&REC), "C04: the record carries a checksum the reader accepts");
	version = check_version(&REC);
	VP_ASSERT(version != ETV_UNKNOWN, "C04: the record carries a magic/version the reader accepts");
	memset(&dec, 0, sizeof(dec));
	ret = decode_header(&REC, 0, &dec, version);
	VP_ASSERT(ret == 0, "C04: the reader decodes the record");
	if (ret != 0) return;
	VP_ASSERT(strcmp(dec.name, "f") == 0, "name");
	VP_ASSERT(dec.uid == ENT.e.uid && dec.gid == ENT.e.gid, "C04: owner ids survive (octal or base-256)");
	VP_ASSERT(dec.mtime == ENT.e.mtime, "C04: time stamp survives, including negative and > 2^33 values");
	VP_ASSERT((dec.mode & 07777) == (ENT.e.mode & 07777) || t == 2, "permission bits survive");
	VP_ASSERT((dec.mode & S_IFMT) == types[t], "C04: entry type survives");
	if (t == 0)
		VP_ASSERT(dec.record_size == ENT.e.size, "C04: file size survives (64 bit)");
	if (t == 2)
		VP_ASSERT(dec.link_target != NULL && strcmp(dec.link_target, "tg") == 0, "symlink target survives");
	if (t == 3 || t == 4)
		VP_ASSERT(dec.devno == ENT.e.rdev, "device number survives");
	VP_REACH("decoded");
}
#endif
