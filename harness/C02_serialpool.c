/*
 * C02 O-3: the serial reference pool implements the same observable contract
 * that C09 proves for the threaded pool: items are handed back in submission
 * order, each processed exactly once (by the single worker context), the
 * first failure status is sticky and stops further submissions.
 * real code: lib/util/src/threadpool_serial.c (#included)
 * Script: up to NOPS operations, each symbolically a submit or a dequeue.
 */
#include "vp.h"
#include <stdlib.h>
#ifndef NOPS
#define NOPS 4
#endif
#include "lib/util/src/threadpool_serial.c"

static char items[NOPS];
static int processed[NOPS], fail_at;
static void *wctx_seen;
static char WCTX;
static int cb(void *user, void *item)
{
	int k = (int)((char *)item - items);
	wctx_seen = user;
	VP_ASSERT(k >= 0 && k < NOPS, "callback gets a submitted item");
	processed[k]++;
	return k == fail_at ? -7 : 0;
}

void harness(void)
{
	thread_pool_t *p = thread_pool_create_serial(cb);
	int submitted = 0, dequeued = 0, first_fail_seen = 0;
	VP_ASSUME(p != NULL);
	p->set_worker_ptr(p, 0, &WCTX);
	fail_at = ND_I32();
	VP_ASSUME(fail_at >= -1 && fail_at < NOPS);

	for (int op = 0; op < NOPS; ++op) {
		if (ND_BOOL()) {
			int st = p->get_status(p);
			int r = p->submit(p, &items[submitted]);
			VP_ASSERT(r == st, "submit reports the pool status and refuses work after a failure");
			if (r == 0)
				submitted++;
		} else {
			void *x = p->dequeue(p);
			if (dequeued == submitted) {
				VP_ASSERT(x == NULL, "nothing in flight => NULL");
			} else {
				VP_ASSERT(x == &items[dequeued], "C02/C09: items come back in submission order (FIFO)");
				VP_ASSERT(processed[dequeued] == 1 && wctx_seen == &WCTX, "each item is processed exactly once, by the worker context, before it is handed back");
				if (dequeued == fail_at)
					first_fail_seen = 1;
				dequeued++;
			}
		}
		VP_ASSERT(p->get_status(p) == (first_fail_seen ? -7 : 0), "failure status is sticky and is the first failure");
	}
	for (int k = 0; k < NOPS; ++k)
		VP_ASSERT(processed[k] == (k < dequeued ? 1 : 0), "no item is processed twice or ahead of its turn");
	if (dequeued > 1)
		VP_REACH("several_items");
	if (first_fail_seen)
		VP_REACH("failure");
	VP_REACH("done");
}
