/*
 * C01 O-7: the id table never grows beyond what the 16 bit id_count field of
 * the superblock can announce.
 * real code: lib/sqfs/src/id_table.c (#included), lib/util/src/array.c
 * The linear search over up to 65536 entries cannot be unwound; the goto
 * program is instrumented with goto-instrument --havoc-loops (sound
 * over-approximation: the loop is replaced by an arbitrary state change of
 * the variables it writes followed by the negated loop condition, keeping one
 * arbitrary iteration of the body).  The harness itself is loop free.
 */
#include "vp.h"
#include "lib/sqfs/src/id_table.c"

/* array_append contract: stores the element (not modelled) and counts it */
int array_append(array_t *a, const void *d) { (void)d; a->used += 1; return 0; }
static sqfs_id_table_t T;
static sqfs_u32 STORE[0x10002];

void harness(void)
{
	sqfs_u32 id = ND_U32();
	sqfs_u16 idx = 0;
	size_t used = ND_SZ(), before;
	int ret;

	VP_ASSUME(used <= 0xFFFF);	/* inductive invariant: the count fits the 16 bit id_count field */
	T.ids.size = sizeof(sqfs_u32);
	T.ids.count = 0x10002;		/* capacity: no realloc in this step */
	T.ids.used = used;
	T.ids.data = STORE;
	before = used;

	ret = sqfs_id_table_id_to_index(&T, id, &idx);
	if (ret == 0) {
		VP_ASSERT(T.ids.used <= 0xFFFF, "C01: a successful id insertion leaves at most 65535 ids - the 16 bit id_count field can announce them");
		VP_ASSERT(T.ids.used == before || (T.ids.used == before + 1 && idx == before), "index of a new id is its position");
		if (T.ids.used == before + 1)
			VP_REACH("appended");
	} else {
		VP_ASSERT(T.ids.used == before, "a refused id changes nothing");
		VP_REACH("refused");
	}
}
