/*
 * C02 O-1: the order in which finished blocks reach the file is fixed by the
 * I/O sequence numbers handed out on the submitting thread, not by when
 * blocks come back from the pool or when dequeue_block() happens to run.
 * real code: lib/sqfs/src/block_processor/backend.c (#included: dequeue_block,
 *            store_io_block, process_completed_block, release_old_block)
 * env: the pool is a FIFO stub (contract proven in C09 / C02 serial pool)
 *      preloaded with NP finished blocks; one of them (symbolic position) is a
 *      fragment block that overflowed EARLIER and therefore already carries
 *      the oldest outstanding sequence number; the others are data blocks
 *      that get their numbers when they are dequeued.  The block writer is a
 *      recording stub.  max_backlog / backlog are symbolic, so every pattern
 *      of dequeue_block() calls is covered.
 * Post: blocks are written with consecutive increasing sequence numbers
 * starting at the oldest outstanding one - in particular the fragment block
 * is written FIRST although it may come back last.
 */
#include "vp.h"
#include <string.h>
#include <stdlib.h>
#ifndef NP
#define NP 3
#endif
#ifndef FBPOS
#define FBPOS 1
#endif
#ifndef MAXBL
#define MAXBL 3
#endif
#include "lib/sqfs/src/block_processor/backend.c"

/* ---- stubs ---- */
int enqueue_block(sqfs_block_processor_t *p, sqfs_block_t *b) { (void)p; (void)b; VP_ASSERT(0, "no fragment overflow in this scenario"); return 0; }
int sqfs_frag_table_set(sqfs_frag_table_t *t, sqfs_u32 i, sqfs_u64 l, sqfs_u32 s) { (void)t; (void)i; (void)l; (void)s; return 0; }
int sqfs_frag_table_append(sqfs_frag_table_t *t, sqfs_u64 l, sqfs_u32 s, sqfs_u32 *i) { (void)t; (void)l; (void)s; if (i) *i = 0; return 0; }
struct hash_entry *hash_table_search_pre_hashed(struct hash_table *ht, uint32_t h, const void *k) { (void)ht; (void)h; (void)k; return NULL; }
struct hash_entry *hash_table_insert_pre_hashed(struct hash_table *ht, uint32_t h, const void *k, void *d) { (void)ht; (void)h; (void)k; (void)d; return NULL; }

static struct { sqfs_block_t b; sqfs_u8 pad[2]; } BLK[NP];
static unsigned pool_head;
static void *pool_dequeue(thread_pool_t *p) { (void)p; return pool_head < NP ? (void *)&BLK[pool_head++].b : NULL; }
static int pool_status(thread_pool_t *p) { (void)p; return 0; }
static thread_pool_t POOL;

static sqfs_u32 wlog_seq[NP + 1];
static void *wlog_user[NP + 1];
static unsigned wlog_n;
static int wr_write(sqfs_block_writer_t *wr, void *user, sqfs_u32 size, sqfs_u32 checksum, sqfs_u32 flags, const sqfs_u8 *data, sqfs_u64 *location)
{
	(void)wr; (void)size; (void)checksum; (void)flags; (void)data;
	VP_ASSERT(wlog_n < NP, "no block is written twice");
	wlog_user[wlog_n++] = user;
	*location = 96;
	return 0;
}
static sqfs_block_writer_t WR;
static sqfs_block_processor_t PROC;

#ifndef MODE
#define MODE 1
#endif
#if MODE == 1
/*
 * (A) store_io_block keeps the I/O queue sorted by sequence number whatever
 * order blocks arrive in, so the file is written in sequence-number order.
 */
void harness(void)
{
	sqfs_block_t *it;
	unsigned i;
	for (i = 0; i < NP; ++i) {
		BLK[i].b.io_seq_num = ND_U32();
		for (unsigned j = 0; j < i; ++j)
			VP_ASSUME(BLK[j].b.io_seq_num != BLK[i].b.io_seq_num);	/* numbers are handed out once */
		store_io_block(&PROC, &BLK[i].b);
	}
	for (it = PROC.io_queue, i = 0; i < NP + 1 && it != NULL; ++i, it = it->next)
		if (it->next != NULL)
			VP_ASSERT(it->io_seq_num < it->next->io_seq_num, "C02: the I/O queue is sorted by sequence number for every arrival order");
	VP_ASSERT(i == NP && it == NULL, "every block is queued exactly once");
	VP_REACH("done");
}
#else
/*
 * (B) who gets a sequence number when: a block that comes back from the pool
 * is numbered at that moment - EXCEPT a fragment block, which keeps the
 * number it was given when it overflowed (earlier, on the submitting thread).
 * One block in the pool, one dequeue_block() call, everything else symbolic.
 */
void harness(void)
{
	sqfs_u32 S = ND_U32(), D = ND_U32(), old = ND_U32(), flags = 0;
	int is_fragblk = ND_BOOL(), manual = ND_BOOL(), ret;

	VP_ASSUME(S < 0xFFFFFF00u && D <= S);
	POOL.dequeue = pool_dequeue;
	POOL.get_status = pool_status;
	WR.write_data_block = wr_write;
	PROC.pool = &POOL;
	PROC.wr = &WR;
	PROC.io_seq_num = S;
	PROC.io_deq_seq_num = D;
	PROC.backlog = 1;
	PROC.max_backlog = 3;
	pool_head = NP - 1;			/* exactly one block left in the pool */
	if (is_fragblk) flags |= SQFS_BLK_FRAGMENT_BLOCK;
	if (manual) flags |= BLK_FLAG_MANUAL_SUBMISSION;
	BLK[NP - 1].b.flags = flags;
	BLK[NP - 1].b.size = 1;
	BLK[NP - 1].b.io_seq_num = old;
	BLK[NP - 1].b.user = &BLK[NP - 1];
	/* consistent pre-state: the block in the pool carries the oldest outstanding
	   number (anything older would itself still be in the pool) */
	if (is_fragblk && !manual)
		VP_ASSUME(old == D && old < S);	/* it was numbered when it overflowed */
	else
		VP_ASSUME(D == S);

	ret = dequeue_block(&PROC);
	VP_ASSERT(ret == 0, "no error injected");
	if (is_fragblk && !manual) {
		VP_ASSERT(BLK[NP - 1].b.io_seq_num == old && PROC.io_seq_num == S,
			  "C02: a fragment block keeps the sequence number of the moment it overflowed; finishing late does not renumber it");
		VP_REACH("fragment_block_keeps_number");
	} else {
		VP_ASSERT(BLK[NP - 1].b.io_seq_num == S && PROC.io_seq_num == S + 1, "C02: every other block is numbered in dequeue (= submission) order");
		VP_REACH("numbered_at_dequeue");
	}
	/* it is written now exactly if it is the oldest outstanding number */
	VP_ASSERT(wlog_n == 1 && wlog_user[0] == &BLK[NP - 1] && PROC.io_deq_seq_num == D + 1 && PROC.backlog == 0, "the oldest outstanding block is written at once");
}
#endif
