/*
 * C02 O-1: the order in which finished blocks reach the file is fixed by the
 * I/O sequence numbers handed out on the submitting thread, not by when
 * blocks come back from the pool or when dequeue_block() happens to run.
 * real code: lib/sqfs/src/block_processor/backend.c (#included: dequeue_block,
 *            store_io_block, process_completed_block, release_old_block)
 * env: the pool is a FIFO stub (contract proven in C09 / C02 serial pool)
 *      preloaded with NP finished blocks; one of them (symbolic position) is a
 *      fragment block that overflowed EARLIER and therefore already carries
 *      the oldest outstanding sequence number; the others are data blocks
 *      that get their numbers when they are dequeued.  The block writer is a
 *      recording stub.  max_backlog / backlog are symbolic, so every pattern
 *      of dequeue_block() calls is covered.
 * Post: blocks are written with consecutive increasing sequence numbers
 * starting at the oldest outstanding one - in particular the fragment block
 * is written FIRST although it may come back last.
 */
#include "vp.h"
#include <string.h>
#include <stdlib.h>
#ifndef NP
#define NP 3
#endif
#include "lib/sqfs/src/block_processor/backend.c"

/* ---- stubs ---- */
int enqueue_block(sqfs_block_processor_t *p, sqfs_block_t *b) { (void)p; (void)b; VP_ASSERT(0, "no fragment overflow in this scenario"); return 0; }
int sqfs_frag_table_set(sqfs_frag_table_t *t, sqfs_u32 i, sqfs_u64 l, sqfs_u32 s) { (void)t; (void)i; (void)l; (void)s; return 0; }
int sqfs_frag_table_append(sqfs_frag_table_t *t, sqfs_u64 l, sqfs_u32 s, sqfs_u32 *i) { (void)t; (void)l; (void)s; if (i) *i = 0; return 0; }
struct hash_entry *hash_table_search_pre_hashed(struct hash_table *ht, uint32_t h, const void *k) { (void)ht; (void)h; (void)k; return NULL; }
struct hash_entry *hash_table_insert_pre_hashed(struct hash_table *ht, uint32_t h, const void *k, void *d) { (void)ht; (void)h; (void)k; (void)d; return NULL; }

static struct { sqfs_block_t b; sqfs_u8 pad[2]; } BLK[NP];
static unsigned pool_head;
static void *pool_dequeue(thread_pool_t *p) { (void)p; return pool_head < NP ? (void *)&BLK[pool_head++].b : NULL; }
static int pool_status(thread_pool_t *p) { (void)p; return 0; }
static thread_pool_t POOL;

static sqfs_u32 wlog_seq[NP + 1];
static void *wlog_user[NP + 1];
static unsigned wlog_n;
static int wr_write(sqfs_block_writer_t *wr, void *user, sqfs_u32 size, sqfs_u32 checksum, sqfs_u32 flags, const sqfs_u8 *data, sqfs_u64 *location)
{
	(void)wr; (void)size; (void)checksum; (void)flags; (void)data;
	VP_ASSERT(wlog_n < NP, "no block is written twice");
	wlog_user[wlog_n++] = user;
	*location = 96;
	return 0;
}
static sqfs_block_writer_t WR;
static sqfs_block_processor_t PROC;

void harness(void)
{
	sqfs_u32 S = ND_U32();
	unsigned fbpos = ND_U32(), i, next_seq;
	int ret;

	VP_ASSUME(S < 0xFFFFFF00u);
	VP_ASSUME(fbpos <= NP);		/* == NP: no fragment block in flight */
	POOL.dequeue = pool_dequeue;
	POOL.get_status = pool_status;
	WR.write_data_block = wr_write;
	PROC.pool = &POOL;
	PROC.wr = &WR;
	PROC.io_deq_seq_num = S;
	PROC.io_seq_num = (fbpos < NP) ? S + 1 : S;	/* the fragment block holds number S */
	PROC.backlog = NP;
	PROC.max_backlog = ND_SZ();
	for (i = 0; i < NP; ++i) {
		BLK[i].b.size = 1;
		BLK[i].b.user = &BLK[i];
		BLK[i].b.flags = ND_BOOL() ? SQFS_BLK_DONT_COMPRESS : 0;
		if (i == fbpos) {
			BLK[i].b.flags |= SQFS_BLK_FRAGMENT_BLOCK;
			BLK[i].b.io_seq_num = S;
		} else {
			BLK[i].b.io_seq_num = ND_U32();	/* whatever was left in a recycled block */
		}
	}

	for (i = 0; i < NP + 1; ++i) {
		if (PROC.backlog == 0)
			break;
		ret = dequeue_block(&PROC);
		VP_ASSERT(ret == 0, "no error injected");
	}
	VP_ASSERT(PROC.backlog == 0 && wlog_n == NP && PROC.io_queue == NULL, "every block is written exactly once");
	if (fbpos < NP) {
		VP_ASSERT(wlog_user[0] == &BLK[fbpos], "C02: the fragment block is written at the position at which it overflowed (first), not when it finished");
		VP_REACH("fragment_block_overtaken");
	}
	/* the data blocks keep their pool (= submission) order */
	next_seq = 0;
	for (i = 0; i < NP; ++i) {
		unsigned k;
		for (k = 0; k < NP; ++k)
			if (wlog_user[i] == &BLK[k])
				break;
		VP_ASSERT(k < NP, "written block is one of the submitted blocks");
		if (k != fbpos) {
			VP_ASSERT(k >= next_seq, "C02: data blocks reach the file in submission order whatever the backlog / call pattern");
			next_seq = k;
		}
	}
	VP_ASSERT(PROC.io_deq_seq_num == PROC.io_seq_num && PROC.io_seq_num == S + NP, "sequence numbers are consecutive and all consumed");
	VP_REACH("done");
}
