/*
 * C07 O-6: hard-link resolution terminates on EVERY link graph.
 * real code: lib/fstree/src/hardlink.c (resolve_link, fstree_resolve_hard_links)
 * env: fstree_get_node_by_path() replaced by a lookup in a symbolic graph of
 *      N nodes: every hard-link node designates an arbitrary node (itself,
 *      another link, a file, a directory) or nothing (dangling).  This is a
 *      superset of what any tar archive / pack file can describe.
 * Termination = unwinding assertions with a bound derived from N.
 */
#include "vp.h"
#include <errno.h>
#include <string.h>
#include <sys/stat.h>
#include "fstree.h"

#ifndef N
#define N 3
#endif

static tree_node_t NODE[N];
static int target_of[N];	/* index, or -1 for dangling */
static char tname[N][2];

tree_node_t *fstree_get_node_by_path(fstree_t *fs, tree_node_t *root, const char *path, bool create, bool stop)
{
	(void)fs; (void)root; (void)create; (void)stop;
	for (int i = 0; i < N; ++i)
		if (path == tname[i])
			return target_of[i] < 0 ? NULL : &NODE[target_of[i]];
	VP_ASSERT(0, "lookup of an unknown path object");
	return NULL;
}
char *fstree_get_path(tree_node_t *n) { (void)n; return NULL; }

void harness(void)
{
	fstree_t fs;
	tree_node_t *prev = NULL;
	int ret;

	memset(&fs, 0, sizeof(fs));
	for (int i = 0; i < N; ++i) {
		unsigned kind = ND_U32();
		VP_ASSUME(kind < 3);
		NODE[i].link_count = 1;
		NODE[i].name = tname[i];
		tname[i][0] = 'a' + i;
		if (kind == 0) {
			NODE[i].mode = S_IFREG | 0644;
		} else if (kind == 1) {
			NODE[i].mode = S_IFDIR | 0755;
		} else {
			int t = ND_I32();
			VP_ASSUME(t >= -1 && t < N);
			target_of[i] = t;
			NODE[i].mode = S_IFLNK | 0777;
			NODE[i].flags = FLAG_LINK_IS_HARD;
			NODE[i].data.target = tname[i];
			/* order of the unresolved list is arbitrary too: built in index
			   order, but which indices are links is symbolic */
			NODE[i].next_by_type = prev;
			prev = &NODE[i];
		}
	}
	fs.links_unresolved = prev;

	ret = fstree_resolve_hard_links(&fs);
	if (ret == 0) {
		for (int i = 0; i < N; ++i) {
			if (S_ISLNK(NODE[i].mode) && (NODE[i].flags & FLAG_LINK_IS_HARD)) {
				VP_ASSERT(NODE[i].flags & FLAG_LINK_RESOVED, "success => every hard link is resolved");
				VP_ASSERT(!S_ISDIR(NODE[i].data.target_node->mode) && !S_ISLNK(NODE[i].data.target_node->mode),
					  "a resolved hard link designates a real non-directory node");
			}
		}
		VP_REACH("resolved");
	} else {
		VP_REACH("rejected");
	}
}
