/*
 * C06 O-1: rdsquashfs refuses to unpack an image in which some directory has
 * two entries of the same name (a symlink and a directory called alike is how
 * a hostile image makes the unpacker follow a link out of the unpack root).
 * real code: bin/rdsquashfs/src/rdsquashfs.c (#included, main renamed):
 *            tree_sort, list_sort, list_merge
 * Two shapes (a tree with symbolic names on both levels makes the list
 * pointers symbolic below the first sort and the recursion does not finish):
 *   flat   - root with K children whose names are NL symbolic bytes (every
 *            order, every coincidence), no grandchildren;
 *   nested - root with K children of concrete distinct names, child NESTED
 *            (each position is one obligation) is a directory whose two
 *            entries have symbolic names.
 * Post: tree_sort fails iff the directory / the sub-directory holds two equal
 * names; on success every listing is strictly sorted and complete.
 */
#include "vp.h"
#include <string.h>
#include <stdlib.h>
#include <stdio.h>
#ifndef K
#define K 3
#endif
#ifndef NL
#define NL 2
#endif
#include "rdsquashfs.h"
static int diag;
#define fprintf(...) ((void)(diag++))
#define fputs(s, f) ((void)(diag++))
int sqfs_tree_node_get_path(const sqfs_tree_node_t *n, char **out) { (void)n; *out = NULL; return ND_BOOL() ? SQFS_ERROR_ALLOC : 0; }
void sqfs_free(void *p) { free(p); }
#define main rdsquashfs_main
#include "bin/rdsquashfs/src/rdsquashfs.c"
#undef main

typedef struct { sqfs_tree_node_t n; sqfs_u8 name[NL + 1]; } nw_t;
static nw_t ROOT, KID[K], SUB[2];

static void mkname(nw_t *w)
{
	for (int i = 0; i < NL; ++i) w->n.name[i] = ND_U8();
	w->n.name[NL] = 0;
}
static int count(sqfs_tree_node_t *l, int max)
{
	int c = 0;
	for (int i = 0; i < max + 1 && l != NULL; ++i, l = l->next) c++;
	return c;
}
static int strictly_sorted(sqfs_tree_node_t *l, int max)
{
	for (int i = 0; i < max && l != NULL && l->next != NULL; ++i, l = l->next)
		if (strcmp((const char *)l->name, (const char *)l->next->name) >= 0)
			return 0;
	return 1;
}

#ifdef NESTED
/* the directory's own listing has concrete distinct names in a concrete
   (unsorted) order, so after sorting the recursion walks concrete pointers;
   the sub-directory is child D (every position is an obligation) and ITS two
   entries have symbolic names */
void harness(void)
{
	static const char *nm[4] = { "c", "a", "d", "b" };
	int dup_sub, ret;
	for (int i = 0; i < K; ++i) {
		KID[i].n.name[0] = (sqfs_u8)nm[i][0]; KID[i].n.name[1] = 0;
		KID[i].n.parent = &ROOT.n;
		KID[i].n.next = (i + 1 < K) ? &KID[i + 1].n : NULL;
	}
	ROOT.n.children = &KID[0].n;
	mkname(&SUB[0]); mkname(&SUB[1]);
	SUB[0].n.next = &SUB[1].n;
	KID[NESTED - 1].n.children = &SUB[0].n;
	SUB[0].n.parent = SUB[1].n.parent = &KID[NESTED - 1].n;
	dup_sub = strcmp((const char *)SUB[0].n.name, (const char *)SUB[1].n.name) == 0;

	ret = tree_sort(&ROOT.n);

	VP_ASSERT((ret != 0) == dup_sub, "C06: a duplicate name inside a sub-directory is refused wherever that directory sorts in its parent's listing (first, middle, last)");
	if (ret == 0) {
		VP_ASSERT(count(ROOT.n.children, K) == K && strictly_sorted(ROOT.n.children, K), "root listing is strictly sorted and complete");
		VP_ASSERT(count(KID[NESTED - 1].n.children, 2) == 2 && strictly_sorted(KID[NESTED - 1].n.children, 2), "sub-directory listing is strictly sorted and complete");
		VP_REACH("accepted");
	} else {
		VP_ASSERT(diag >= 1, "the refusal is diagnosed");
		VP_REACH("refused");
	}
}
#else
/* one level, symbolic names: every order and every coincidence of K names */
void harness(void)
{
	int dup_root = 0, ret;
	for (int i = 0; i < K; ++i) {
		mkname(&KID[i]);
		KID[i].n.parent = &ROOT.n;
		KID[i].n.next = (i + 1 < K) ? &KID[i + 1].n : NULL;
	}
	ROOT.n.children = &KID[0].n;
	for (int i = 0; i < K; ++i)
		for (int j = 0; j < i; ++j)
			if (strcmp((const char *)KID[i].n.name, (const char *)KID[j].n.name) == 0)
				dup_root = 1;

	ret = tree_sort(&ROOT.n);

	VP_ASSERT((ret != 0) == dup_root, "C06: unpacking is refused iff the directory holds two entries of the same name, at any list position");
	if (ret == 0) {
		VP_ASSERT(count(ROOT.n.children, K) == K && strictly_sorted(ROOT.n.children, K), "listing is strictly sorted and complete");
		VP_REACH("accepted");
	} else {
		VP_ASSERT(diag >= 1, "the refusal is diagnosed");
		VP_REACH("refused");
	}
}
#endif
