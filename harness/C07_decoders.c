/*
 * C07 O-4: small decoders on ARBITRARY input bytes.
 * real code: lib/util/src/base64_decode.c (MODE 1), hex_decode.c (MODE 2),
 *            parse_int.c (MODE 3)
 * Memory safety (reads inside [in, in+len), writes inside the output
 * capacity), plus: reported output length <= capacity; a successfully parsed
 * number equals the mathematical value of the digit string (no silent wrap).
 */
#include "vp.h"
#include "util/util.h"
#include "util/parse.h"
#include <string.h>
#ifndef N
#define N 6
#endif
#ifndef CAP
#define CAP 4
#endif

void harness(void)
{
	char in[N];
	sqfs_u8 out[CAP + 1];
	size_t len = ND_SZ(), cap = ND_SZ(), outlen, i;
	int ret;

	VP_ASSUME(len <= N && cap <= CAP);
	for (i = 0; i < N; ++i)
		in[i] = (char)ND_U8();
	out[CAP] = 0x5A;
#if MODE == 1
	outlen = cap;
	/* exact-size objects so that any access past len / cap is caught */
	ret = base64_decode(in, len, out, &outlen);
	VP_ASSERT(outlen <= cap, "base64: reported length never exceeds the capacity");
	VP_ASSERT(ret == 0 || outlen == 0, "base64: failure reports length 0");
	VP_ASSERT(out[CAP] == 0x5A, "base64: nothing written past the output buffer");
	if (ret == 0) VP_REACH("ok"); else VP_REACH("fail");
#elif MODE == 2
	ret = hex_decode(in, len, out, cap);
	VP_ASSERT(out[CAP] == 0x5A, "hex: nothing written past the output buffer");
	VP_ASSERT(ret == 0 || ret == -1, "hex: result is 0 or -1");
	if (ret == 0) {
		VP_ASSERT(len % 2 == 0 && len / 2 <= cap, "hex: success means the whole input was consumed into the buffer");
		VP_REACH("ok");
	} else {
		VP_REACH("fail");
	}
#else
	{
		sqfs_u64 v = 0, ref = 0;
		sqfs_s64 sv = 0;
		size_t diff = 0, k;
		int overflow = 0;
		unsigned which = ND_U32();
		VP_ASSUME(which < 3);
		(void)cap; (void)outlen;
		if (which == 0) ret = parse_uint(in, len, &diff, 0, 0, &v);
		else if (which == 1) ret = parse_uint_oct(in, len, &diff, 0, 0, &v);
		else ret = parse_int(in, len, &diff, 0, 0, &sv);
		VP_ASSERT(diff <= len, "parse: never consumes more than len characters");
		if (ret == 0 && which < 2) {
			sqfs_u64 base = which == 0 ? 10 : 8;
			for (k = 0; k < N; ++k) {
				if (k < diff) {
					VP_ASSERT(in[k] >= '0' && (sqfs_u64)(in[k] - '0') < base, "parse: consumed characters are digits of the base");
					if (ref > (0xFFFFFFFFFFFFFFFFULL - (sqfs_u64)(in[k] - '0')) / base) overflow = 1;
					ref = ref * base + (sqfs_u64)(in[k] - '0');
				}
			}
			VP_ASSERT(!overflow && v == ref, "parse: a successful result is the mathematical value (no silent wrap)");
			/* octal: a leading '8'/'9' passes the "starts with a digit" test and stops the
			   digit loop at once; all callers of parse_uint_oct pass diff == NULL, which
			   turns this into SQFS_ERROR_CORRUPTED (trailing garbage) */
			VP_ASSERT(diff >= 1 || (which == 1 && (in[0] == '8' || in[0] == '9')), "parse: success consumes at least one digit");
			VP_REACH("ok");
		} else if (ret == 0) {
			VP_REACH("ok_signed");
		} else {
			VP_REACH("fail");
		}
	}
#endif
}
