#!/bin/sh
# usage: tools/run_seeded.sh [name ...]   - apply each seeded change to /repo, run the quick check of its property,
# record the outcome in seeded/<name>/meta.json ("detected_by"), and undo the change straight afterwards.
# Evidence files are saved and restored so that this never replaces the evidence of the unchanged tree.
cd "$(dirname "$0")/.."
[ -n "$(git -C /repo status --porcelain --untracked-files=no)" ] && { echo "/repo is not clean"; exit 2; }
names="$*"; [ -z "$names" ] && names=$(ls seeded | grep -v INDEX)
for n in $names; do
	d=seeded/$n
	[ -f $d/patch.diff ] || continue
	prop=$(python3 -c "import json;print(json.load(open('$d/meta.json'))['property'])")
	cp evidence/$prop.json /tmp/evidence_save_$prop.json 2>/dev/null
	if ! git -C /repo apply --check "$PWD/$d/patch.diff" 2>/dev/null; then echo "$n: patch does not apply to the current /repo"; continue; fi
	git -C /repo apply "$PWD/$d/patch.diff"
	./check $prop --tier ${TIER:-quick} > build/seeded_$n.log 2>&1; rc=$?
	git -C /repo checkout -- .
	cp /tmp/evidence_save_$prop.json evidence/$prop.json 2>/dev/null
	viol=$(grep -c "^VIOLATION" build/seeded_$n.log)
	obl=$(grep "^VIOLATION" build/seeded_$n.log | sed 's/.*obligation=\([^ ]*\).*/\1/' | sort -u | tr '\n' ' ')
	echo "$n property=$prop rc=$rc violations=$viol obligations: $obl"
	python3 - "$d/meta.json" "$rc" "$obl" <<'PY'
import json,sys
p,rc,obl=sys.argv[1],int(sys.argv[2]),sys.argv[3].split()
m=json.load(open(p))
m["detected_by"]={"quick_check_exit": rc, "detected": rc==1, "obligations": obl, "how": "git -C /repo apply patch.diff; ./check <property> --tier quick; git -C /repo checkout -- ."}
json.dump(m,open(p,"w"),indent=1)
PY
done
