#!/usr/bin/env python3
"""write seeded/INDEX.md from the meta.json files (and print the table for DESIGN.md)"""
import json, os, glob
rows = []
for d in sorted(glob.glob(os.path.join(os.path.dirname(__file__), "..", "seeded", "*"))):
    m = os.path.join(d, "meta.json")
    if not os.path.isfile(m):
        continue
    j = json.load(open(m))
    det = j.get("detected_by")
    if isinstance(det, dict):
        res = ("caught by " + ", ".join(det["obligations"])) if det.get("detected") else ("NOT caught (check exit %s)" % det.get("quick_check_exit"))
    else:
        res = "not run"
    rows.append((os.path.basename(d), j["property"], j["breaks"], j["needs_to_manifest"], res))
out = ["# Seeded changes", "",
       "Each directory holds `patch.diff` (apply with `git -C /repo apply`), the demonstration written by the independent sub-agent",
       "(`run_demo.sh`: exit 0 on the unchanged tree, non-zero with the patch) and `meta.json`. None of them is ever committed to /repo.",
       "`tools/run_seeded.sh` applies each one, runs the quick check of its property and undoes it.", "",
       "| seeded change | property | what it breaks | needs | result of ./check <property> --tier quick |", "|---|---|---|---|---|"]
for r in rows:
    out.append("| %s | %s | %s | %s | %s |" % r)
caught = sum(1 for r in rows if r[4].startswith("caught"))
out += ["", "%d of %d seeded changes are caught by the quick tier." % (caught, len(rows))]
open(os.path.join(os.path.dirname(__file__), "..", "seeded", "INDEX.md"), "w").write("\n".join(out) + "\n")
print("\n".join(out))
