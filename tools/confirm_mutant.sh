#!/bin/sh
# usage: confirm_mutant.sh <worktree> <MUTANTk>   -> prints CONFIRMED / NOT-CONFIRMED with details
wt="$1"; m="$2"
cd "$wt" || exit 2
git checkout -q -- . 2>/dev/null
git apply --check "$m/patch.diff" || { echo "NOT-CONFIRMED $wt $m: patch does not apply"; exit 1; }
git apply "$m/patch.diff"
make -j4 >/dev/null 2>&1 || { echo "NOT-CONFIRMED $wt $m: build fails with patch"; git checkout -q -- .; exit 1; }
tests=$(make -j4 check 2>&1 | grep -E "^# (PASS|FAIL|ERROR):" | tr '\n' ' ')
( cd "$m" && timeout 900 bash ./run_demo.sh >/tmp/confirm_$$.log 2>&1 ); rc_with=$?
git checkout -q -- .
make -j4 >/dev/null 2>&1
( cd "$m" && timeout 900 bash ./run_demo.sh >/tmp/confirm_$$.log 2>&1 ); rc_without=$?
rm -f /tmp/confirm_$$.log
if [ "$rc_with" -ne 0 ] && [ "$rc_without" -eq 0 ] && echo "$tests" | grep -q "PASS:  89" ; then
	echo "CONFIRMED $wt $m: tests[$tests] demo_with_patch=$rc_with demo_without=$rc_without"
else
	echo "NOT-CONFIRMED $wt $m: tests[$tests] demo_with_patch=$rc_with demo_without=$rc_without"
fi
