#!/bin/sh
# usage: mk_worktree.sh <dir>  - scratch git worktree of /repo HEAD that can be built (autotools files copied)
set -e
d="$1"
git -C /repo worktree add -q "$d" HEAD
for f in configure Makefile.in aclocal.m4 config.h.in compile config.guess config.sub depcomp install-sh ltmain.sh missing test-driver; do
	cp -a /repo/$f "$d"/ 2>/dev/null || true
done
cp -a /repo/m4 "$d"/ 2>/dev/null || true
echo "$d ready: cd $d && ./configure >/dev/null && make -j8 >/dev/null && make -j8 check"
